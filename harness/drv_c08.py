"""C08 driver: one configuration, several runs: twice in one process and in fresh subprocesses with different
PYTHONHASHSEED, allocation padding before the grammar classes are defined, and import order."""
from __future__ import annotations

import argparse
import concurrent.futures as cf
import json
import os
import subprocess
import sys

from harness.common import Batch, rng, write_summary


def child(cfg, hashseed):
    env = dict(os.environ)
    env["PYTHONHASHSEED"] = str(hashseed)
    p = subprocess.run([sys.executable, "-B", "-m", "harness.c08_child", json.dumps(cfg)], env=env,
                       stdout=subprocess.PIPE, stderr=subprocess.PIPE, text=True, timeout=300)
    for line in p.stdout.splitlines():
        if line.startswith("C08CHILD "):
            return json.loads(line[9:])
    return [{"evals": [], "result": ["", 0], "exc": "ChildCrashed:" + p.stderr.strip().splitlines()[-1][:80] if p.stderr.strip() else "ChildCrashed"}]


def main():
    ap = argparse.ArgumentParser()
    ap.add_argument("--out", required=True)
    ap.add_argument("--tier", default="quick")
    ap.add_argument("--seed", type=int, default=0)
    ap.add_argument("--shards", type=int, default=1)
    a = ap.parse_args()
    R = rng(a.seed, "c08")
    batch = Batch("C08", {"tier": a.tier, "seed": a.seed, "prop": "C08"})
    quick = a.tier == "quick"
    reps = ["tree", "ge", "sge", "dsge", "stack"]
    algs = ["GP", "HC"] if quick else ["GP", "HC", "RS", "OPO"]
    grammars = ["bases", "refined"] if quick else ["bases", "refined", "arith", "nested", "sizedlist", "mutual"]
    inits = ["standard"] if quick else ["standard", "grow", "full"]
    configs = []
    for rk in reps:
        for alg in algs:
            for gi, gname in enumerate(grammars):
                for init in inits:
                    if init != "standard" and (rk != "tree" or alg != "GP"):
                        continue
                    configs.append({"rep": rk, "alg": alg, "grammar": gname, "seed": R.randint(0, 10 ** 6), "init": init,
                                    "evals": 40 if alg == "GP" else 25, "pop": 8, "decider": R.choice(["grow", "pt", "pigrow"]),
                                    "minimize": R.random() < 0.5})
    # crossover-heavy GP steps and caller-supplied trackers, for every representation
    for rk in reps:
        for gname in (["arith", "mutual"] if quick else ["nested", "arith", "mutual", "nested", "arith", "mutual"]):
            configs.append({"rep": rk, "alg": "GP", "grammar": gname, "seed": R.randint(0, 10 ** 6), "init": "standard", "step": "xo",
                            "evals": 60, "pop": 8, "decider": "grow", "minimize": R.random() < 0.5, "own_tracker": R.random() < 0.5})
    # weighted grammar with the consumers of production weights (progressively-terminal decider, stack machine)
    for rk in ("tree", "ge", "stack"):
        for alg in ("GP", "RS"):
            configs.append({"rep": rk, "alg": alg, "grammar": "weighted2", "seed": R.randint(0, 10 ** 6), "init": "standard",
                            "evals": 40, "pop": 8, "decider": "pt", "minimize": R.random() < 0.5})
            configs.append({"rep": rk, "alg": alg, "grammar": "weighted", "seed": R.randint(0, 10 ** 6), "init": "standard",
                            "evals": 40, "pop": 8, "decider": "pt", "minimize": R.random() < 0.5})
    for gname in (["arith", "weighted"] if quick else ["arith", "weighted", "nested", "mutual", "refined"]):
        configs.append({"rep": "tree", "alg": "SGP", "grammar": gname, "seed": R.randint(0, 10 ** 6), "init": "standard",
                        "evals": 40, "pop": 8, "decider": "grow", "minimize": R.random() < 0.5})
    # few fitness levels: equally fit individuals straddle the elitism cut (which of them survives may depend on population
    # order and the seeded source only)
    for rk in (reps if not quick else ["tree", "ge", "dsge"]):
        configs.append({"rep": rk, "alg": "GP", "grammar": "arith", "seed": R.randint(0, 10 ** 6), "init": "standard", "step": "elite",
                        "evals": 60, "pop": 8, "decider": "grow", "minimize": R.random() < 0.5, "levels": 2})
    configs.append({"rep": "tree", "alg": "SGP", "grammar": "arith", "seed": R.randint(0, 10 ** 6), "init": "grow",
                    "evals": 60, "pop": 8, "decider": "grow", "minimize": R.random() < 0.5, "levels": 2, "elitism": 3})
    # a variable list with a repeated name
    for rk, alg in (("tree", "GP"), ("ge", "HC"), ("dsge", "RS"), ("tree", "OPO")):
        configs.append({"rep": rk, "alg": alg, "grammar": "dupvars", "seed": R.randint(0, 10 ** 6), "init": "standard",
                        "evals": 30, "pop": 8, "decider": "grow", "minimize": R.random() < 0.5})
    for alg in ["GP", "HC", "RS", "OPO"]:
        configs.append({"rep": R.choice(reps), "alg": alg, "grammar": "refined", "seed": R.randint(0, 10 ** 6), "init": "standard",
                        "evals": 30, "pop": 8, "decider": "grow", "minimize": R.random() < 0.5, "own_tracker": True})
    envs = [(1, 0, 0), (2, 3, 1), (3, 11, 0)] if quick else [(1, 0, 0), (2, 3, 1), (3, 11, 0), (4, 1, 1), (5, 29, 0)]
    jobs = []
    for ci, cfg in enumerate(configs):
        for (hs, pad, imp) in envs:
            c = dict(cfg, pad=pad, import_order=imp, repeat=2 if hs == 1 else 1)
            jobs.append((ci, hs, c))
    with cf.ThreadPoolExecutor(max_workers=12) as ex:
        results = list(ex.map(lambda j: (j[0], j[1], child(j[2], j[1])), jobs))
    nev = 0
    for ci, cfg in enumerate(configs):
        digests = {}
        evs = []

        def dg(h):
            if h not in digests:
                digests[h] = len(digests) + 1
            return digests[h]

        for (cj, hs, runs) in results:
            if cj != ci:
                continue
            for ri, run in enumerate(runs):
                where = "same-process-repeat" if ri > 0 else ("first-process" if hs == 1 else "other-process")
                rid = f"hs{hs}/r{ri}"
                if run["exc"]:
                    evs.append({"e": "runfail", "run": rid, "where": where, "exc": run["exc"]})
                    continue
                for i, (h, v) in enumerate(run["evals"]):
                    evs.append({"e": "eval", "run": rid, "where": where, "i": i + 1, "digest": dg(h), "fit": v})
                evs.append({"e": "result", "run": rid, "where": where, "digest": dg(run["result"][0]), "fit": run["result"][1],
                            "n": len(run["evals"])})
        batch.trace(f"{cfg['rep']}/{cfg['alg']}/{cfg['grammar']}/{cfg['init']}/{cfg.get('step', 'default')}/{int(bool(cfg.get('own_tracker')))}", evs,
                    {"k": "c08", "rep": cfg["rep"], "alg": cfg["alg"], "grammar": cfg["grammar"], "decider": cfg["decider"]})
        nev += len(evs)
    paths = batch.shards(a.out, a.shards)
    write_summary(a.out, {"batches": paths, "traces": len(batch.traces), "events": nev, "child_processes": len(jobs)})


if __name__ == "__main__":
    main()
