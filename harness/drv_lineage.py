"""Advisory: lineage of the individuals the local-search algorithms evaluate (created / mutated from whom)."""
from __future__ import annotations

import argparse

from harness.common import Batch, rng, write_summary, time_limit
from harness.search_common import FitnessProbe, make_rep

from geneticengine.algorithms.random_search import RandomSearch
from geneticengine.algorithms.one_plus_one import OnePlusOne
from geneticengine.algorithms.hill_climbing import HC
from geneticengine.evaluation.budget import EvaluationBudget
from geneticengine.problems import SingleObjectiveProblem
from geneticengine.random.sources import NativeRandomSource


def main():
    ap = argparse.ArgumentParser()
    ap.add_argument("--out", required=True)
    ap.add_argument("--tier", default="quick")
    ap.add_argument("--seed", type=int, default=0)
    ap.add_argument("--shards", type=int, default=1)
    ap.add_argument("--prop", default="C12")
    ap.add_argument("--gen", default="")
    a = ap.parse_args()
    R = rng(a.seed, "lineage")
    batch = Batch("C12", {"tier": a.tier, "seed": a.seed, "prop": "C12"})
    nev = 0
    n = 8 if a.tier == "quick" else 60
    for alg in ("RS", "OPO", "HC"):
        for i in range(n):
            events = []
            rs = NativeRandomSource(R.randint(0, 10 ** 6))
            rep = make_rep("tree" if i % 2 else "ge", rs, lineage_events=events)
            minimise = bool(i % 2)
            ff = FitnessProbe(events, "table", [[x] for x in (5, 1, 9, 3, 11, 7, 2, 12, 4, 10, 6, 8)], single=True)
            problem = SingleObjectiveProblem(ff, minimize=minimise)
            budget = EvaluationBudget(R.randint(4, 14))
            algo = {"RS": RandomSearch, "OPO": OnePlusOne}.get(alg)
            try:
                with time_limit(20):
                    if algo:
                        algo(problem, budget, rep, rs).search()
                    else:
                        HC(problem, budget, rep, rs, number_of_mutations=R.choice([1, 3])).search()
            except Exception:
                pass
            batch.trace(f"{alg}/{i}", events, {"k": "lineage", "alg": alg, "mini": [minimise]})
            nev += len(events)
    paths = batch.shards(a.out, a.shards)
    write_summary(a.out, {"batches": paths, "traces": len(batch.traces), "events": nev})


if __name__ == "__main__":
    main()
