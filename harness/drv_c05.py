"""C05 driver (R): hierarchies of the bounded family + fixed + shipped grammars are instantiated as real
classes; the library's Grammar objects (both depth modes, usable sub-grammar) are projected and TLC
compares them with GEGrammar computed from the declared hierarchy."""
from __future__ import annotations

import sys

from harness.common import Batch, std_args, rng, exc_name, write_summary, time_limit
from harness import grammars as GR
from harness.proj import declared_grammar, impl_grammar, finalize

from geneticengine.grammar.grammar import extract_grammar

FEATS = [
    {"intrange", "int", "nested_abstract", "concrete_ref"},
    {"intrange", "sizedlist", "union", "nested_abstract"},
    {"intrange", "bool", "plainlist", "tuple", "union", "unreachable"},
    {"int", "float", "str", "bool", "varrange", "sizedlist", "plainlist", "concrete_ref", "unreachable"},
    {"intrange", "tuple", "union", "sizedlist", "nested_abstract", "concrete_ref", "unreachable"},
    {"intrange", "floatrange", "strsize", "interval", "intlist", "floatlist", "dependent", "sizedlist"},
    {"intrange", "nested", "sizedlist", "union", "tuple", "concrete_ref"},
    {"intrange", "weights", "nested_abstract", "sizedlist"},
    {"intrange", "int", "weights", "concrete_ref"},
]


def finite_choice(spec):
    def ok(f):
        k = f[0]
        if k == "base":
            return f[1] == "bool"
        if k == "sym":
            return True
        if k == "ann":
            return f[2][0] in ("IntRange", "IntList", "VarRange", "ListSize", "ListSizeNoOps") and \
                (f[1][0] != "list" or ok(f[1][1]))
        if k in ("union", "tuple"):
            return all(ok(x) for x in f[1])
        return False
    return all(ok(f) for c in spec["classes"] for _, f in c["fields"])


def one(spec, batch, stats, lang=False, staged=False):
    b = GR.build(spec)
    try:
        decl = b.oracle()
        evs = []
        g0 = None
        if staged:
            # a history before the analysis under test: a grammar over all classes BUT ONE was extracted, printed and
            # used first (so whatever the library memoises per class exists for the ancestors of the class left out)
            withf = [c for c in spec["classes"] if not c["abstract"] and c["fields"] and c["name"] != spec["start"]]
            if withf:
                drop = b.classes[withf[-1]["name"]]
                try:
                    with time_limit(5):
                        gs = extract_grammar([c for c in b.considered if c is not drop], b.start)
                        repr(gs)
                        from geneticengine.grammar.utils import get_arguments
                        for c in b.classes.values():
                            if c is not drop:
                                get_arguments(c)
                except Exception:
                    pass
        for mode in (False, True):
            try:
                with time_limit(5):
                    g = extract_grammar(b.considered, b.start, expansion_depthing=mode)
                evs.append({"e": "analysis", "exc": "", "mode": mode, "impl": impl_grammar(g)})
                if not mode:
                    g0 = g
            except Exception as e:
                evs.append({"e": "analysis", "exc": exc_name(e), "mode": mode, "impl": {"expd": mode}})
        if g0 is not None:
            # the FIRST grammar again, after another grammar over the same classes (the other depth mode) was extracted:
            # its analysis is its own
            try:
                evs.append({"e": "analysis", "exc": "", "mode": False, "impl": impl_grammar(g0)})
            except Exception as e:
                evs.append({"e": "analysis", "exc": exc_name(e), "mode": False, "impl": {"expd": False}})
            try:
                with time_limit(5):
                    u = g0.usable_grammar()
                iu = impl_grammar(u)
                evs.append({"e": "usable", "exc": "", "impl": iu})
                d = min(int(g0.get_min_tree_depth()) + 1, 3)
                if lang and finite_choice(spec) and GR.lang_size(spec, d) <= 2000:
                    evs.append({"e": "usable_lang", "d": d, "impl": iu})
            except Exception as e:
                evs.append({"e": "usable", "exc": exc_name(e), "impl": {"expd": False}})
        batch.trace(spec["id"] + ("/staged" if staged else ""), evs, {"k": "grammar", "g": decl})
        stats["events"] += len(evs)
    finally:
        b.dispose()


def one_synthetic(i, R, batch, stats):
    """a grammar from the library's own random grammar generator (synthetic_grammar.create_arbitrary_grammar)"""
    from geneticengine.grammar.synthetic_grammar import create_arbitrary_grammar
    nts = R.randint(1, 4)
    classes, start = create_arbitrary_grammar(R.randint(0, 10 ** 6), nts, R.randint(0, nts),
                                              productions_per_non_terminal=lambda rd: rd.randint(1, 3),
                                              non_terminals_per_production=lambda rd: rd.randint(0, 3))
    decl = declared_grammar(list(classes), start)
    considered = [c for c in classes if c is not start]
    evs = []
    g0 = None
    for mode in (False, True):
        try:
            with time_limit(5):
                g = extract_grammar(considered, start, expansion_depthing=mode)
            evs.append({"e": "analysis", "exc": "", "mode": mode, "impl": impl_grammar(g)})
            if not mode:
                g0 = g
        except Exception as e:
            evs.append({"e": "analysis", "exc": exc_name(e), "mode": mode, "impl": {"expd": mode}})
    if g0 is not None:
        try:
            with time_limit(5):
                u = g0.usable_grammar()
            evs.append({"e": "usable", "exc": "", "impl": impl_grammar(u)})
        except Exception as e:
            evs.append({"e": "usable", "exc": exc_name(e), "impl": {"expd": False}})
    batch.trace(f"synthetic/{i}", evs, {"k": "grammar", "g": decl})
    stats["events"] += len(evs)


SHIPPED = [("geml.grammars.letter", "String"), ("geml.grammars.literals", "ExpLiteral"), ("geml.grammars.regex", "RE"),
           ("geml.grammars.sgp", "Number"), ("geml.grammars.symbolic_regression", "Expression")]


def one_shipped(modname, rootname, batch, stats):
    """a grammar shipped with the repository (geml.grammars): all classes of the module, its abstract root as start symbol"""
    import importlib
    import inspect
    mod = importlib.import_module(modname)
    classes = [c for _, c in inspect.getmembers(mod, inspect.isclass) if c.__module__ == mod.__name__]
    start = getattr(mod, rootname)
    decl = declared_grammar(classes, start)
    considered = [c for c in classes if c is not start]
    evs = []
    g0 = None
    for mode in (False, True):
        try:
            with time_limit(10):
                g = extract_grammar(considered, start, expansion_depthing=mode)
            evs.append({"e": "analysis", "exc": "", "mode": mode, "impl": impl_grammar(g)})
            if not mode:
                g0 = g
        except Exception as e:
            evs.append({"e": "analysis", "exc": exc_name(e), "mode": mode, "impl": {"expd": mode}})
    if g0 is not None:
        try:
            with time_limit(10):
                u = g0.usable_grammar()
            evs.append({"e": "usable", "exc": "", "impl": impl_grammar(u)})
        except Exception as e:
            evs.append({"e": "usable", "exc": exc_name(e), "impl": {"expd": False}})
    batch.trace(f"shipped/{modname.split('.')[-1]}", evs, {"k": "grammar", "g": decl})
    stats["events"] += len(evs)


def main():
    a = std_args()
    R = rng(a.seed, "c05")
    batch = Batch("C05", {"tier": a.tier, "seed": a.seed})
    stats = {"events": 0}
    for spec in GR.fixed_specs():
        one(spec, batch, stats, lang=True)
        one(spec, batch, stats, staged=True)
    n = 300 if a.tier == "quick" else 6000
    for i, spec in enumerate(GR.family(R, n, FEATS)):
        one(spec, batch, stats, lang=(i % 10 == 0), staged=(i % 4 == 1))
    for i in range(40 if a.tier == "quick" else 800):
        one_synthetic(i, R, batch, stats)
    for modname, rootname in SHIPPED:
        one_shipped(modname, rootname, batch, stats)
    batch.traces = finalize(batch.traces)
    paths = batch.shards(a.out, a.shards)
    write_summary(a.out, {"batches": paths, "traces": len(batch.traces), "events": stats["events"]})


if __name__ == "__main__":
    main()
