"""Runs ONE seeded search configuration and prints the sequence of evaluated programs (digests) as JSON.
Launched in fresh interpreters with different PYTHONHASHSEED / allocation padding / import order."""
from __future__ import annotations

import hashlib
import json
import sys


def main():
    cfg = json.loads(sys.argv[1])
    pad = cfg.get("pad", 0)
    # allocation pattern before the grammar classes exist: dummy classes and objects shift addresses
    junk = [type(f"Pad{i}", (object,), {"x": i}) for i in range(pad)]
    junk2 = [object() for _ in range(pad * 37)]
    # ... and holes in the allocator's pools, released in an order that differs from process to process: objects created
    # during the run then get addresses in a different relative order
    import random as _random

    class _Filler:
        def __init__(self, i):
            self.a = i
            self.b = {}
    fill = [_Filler(i) for i in range(3000)] + [bytearray(32 + 8 * (i % 16)) for i in range(2000)] + [[i] for i in range(1000)]
    order = list(range(len(fill)))
    _random.Random(1000 + pad).shuffle(order)
    for i in order[: len(order) * 2 // 3]:
        fill[i] = None
    if cfg.get("import_order", 0) == 1:
        import geneticengine.representations.stackgggp  # noqa
        import geneticengine.algorithms.gp.gp  # noqa
    else:
        import geneticengine.algorithms.gp.gp  # noqa
        import geneticengine.representations.stackgggp  # noqa
    from harness import grammars as GR
    from harness.proj import term_of, term_key
    from geneticengine.grammar.grammar import extract_grammar
    from geneticengine.random.sources import NativeRandomSource
    from geneticengine.problems import SingleObjectiveProblem
    from geneticengine.evaluation.budget import EvaluationBudget
    from geneticengine.algorithms.gp.gp import GeneticProgramming
    from geneticengine.algorithms.random_search import RandomSearch
    from geneticengine.algorithms.hill_climbing import HC
    from geneticengine.algorithms.one_plus_one import OnePlusOne
    from geneticengine.representations.tree.treebased import TreeBasedRepresentation
    from geneticengine.representations.tree.initializations import (MaxDepthDecider, ProgressivelyTerminalDecider,
                                                                     PositionIndependentGrowDecider)
    from geneticengine.representations.tree.operators import FullInitializer, GrowInitializer
    from geneticengine.algorithms.gp.operators.initializers import StandardInitializer
    from geneticengine.representations.grammatical_evolution.ge import GrammaticalEvolutionRepresentation
    from geneticengine.representations.grammatical_evolution.structured_ge import StructuredGrammaticalEvolutionRepresentation
    from geneticengine.representations.grammatical_evolution.dynamic_structured_ge import (
        DynamicStructuredGrammaticalEvolutionRepresentation)
    from geneticengine.representations.stackgggp import StackBasedGGGPRepresentation

    if cfg["grammar"] == "dupvars":
        # a variable list in which one name is listed twice (e.g. a data set with a repeated column name)
        spec = {"id": "dupvars", "start": "Expr", "classes": [
            GR._c("Expr", "", abstract=True),
            GR._c("V", "Expr", [("name", ("ann", ("base", "str"), ("VarRange", ["x", "y", "x", "z", "w", "y"])))]),
            GR._c("Add", "Expr", [("l", GR.E), ("r", GR.E)])]}
    else:
        spec = [s for s in GR.fixed_specs() if s["id"] == cfg["grammar"]][0]
    runs = []
    for rep_i in range(cfg.get("repeat", 1)):
        b = GR.build(spec) if rep_i == 0 else b
        g = extract_grammar(b.considered, b.start)
        d = int(g.get_min_tree_depth()) + 3
        rs = NativeRandomSource(cfg["seed"])
        dec = {"grow": MaxDepthDecider, "pigrow": PositionIndependentGrowDecider}.get(cfg.get("decider", "grow"))
        decider = dec(rs, g, d) if dec else ProgressivelyTerminalDecider(rs, g)
        rk = cfg["rep"]
        if rk == "tree":
            rep = TreeBasedRepresentation(g, decider)
        elif rk == "ge":
            rep = GrammaticalEvolutionRepresentation(g, decider, gene_length=40)
        elif rk == "sge":
            rep = StructuredGrammaticalEvolutionRepresentation(g, decider, gene_length=16)
        elif rk == "dsge":
            rep = DynamicStructuredGrammaticalEvolutionRepresentation(g, d)
        else:
            rep = StackBasedGGGPRepresentation(g, gene_length=256)
        seen = []

        def ff(p):
            k = term_key(term_of(p)) + "|" + repr(p)      # structure AND the exact text of the program (every value)
            h = hashlib.sha1(k.encode()).hexdigest()[:16]
            v = int(h[:6], 16) % cfg.get("levels", 1000)      # few levels: many equally fit programs
            seen.append([h, v])
            return float(v)

        problem = SingleObjectiveProblem(ff, minimize=bool(cfg.get("minimize", False)))
        budget = EvaluationBudget(cfg["evals"])
        alg = cfg["alg"]
        if cfg.get("init") == "full" and rk == "tree":
            init = FullInitializer(d)
        else:
            init = {"standard": StandardInitializer, "grow": GrowInitializer}.get(cfg.get("init", "standard"), StandardInitializer)()
        try:
            kw = {}
            if cfg.get("own_tracker"):      # a tracker supplied by the caller (the way recorders are attached)
                from geneticengine.evaluation.tracker import SingleObjectiveProgressTracker
                kw["tracker"] = SingleObjectiveProgressTracker(problem)
            if alg == "SGP":        # the repository's simple API, seeded through its own `seed` argument
                from geml.simplegp import SimpleGP
                sg = SimpleGP(ff, g, minimize=bool(cfg.get("minimize", False)), max_depth=d, max_time=10 ** 9,
                              max_evaluations=cfg["evals"], seed=cfg["seed"], population_size=cfg.get("pop", 8),
                              elitism=cfg.get("elitism", 1), novelty=1, mutation_probability=0.5, crossover_probability=0.5)
                problem = sg.problem
                a = sg
            elif alg == "GP":
                if cfg.get("step") == "xo":  # a step in which crossover fires often (the default step uses 0.01)
                    from geneticengine.algorithms.gp.operators.combinators import SequenceStep
                    from geneticengine.algorithms.gp.operators.crossover import GenericCrossoverStep
                    from geneticengine.algorithms.gp.operators.mutation import GenericMutationStep
                    from geneticengine.algorithms.gp.operators.selection import TournamentSelection
                    kw["step"] = SequenceStep(TournamentSelection(3), GenericCrossoverStep(0.9), GenericMutationStep(0.5))
                if cfg.get("step") == "elite":  # survivors of elitism and novelty next to the bred individuals
                    from geneticengine.algorithms.gp.operators.combinators import SequenceStep, ParallelStep
                    from geneticengine.algorithms.gp.operators.crossover import GenericCrossoverStep
                    from geneticengine.algorithms.gp.operators.mutation import GenericMutationStep
                    from geneticengine.algorithms.gp.operators.selection import TournamentSelection
                    from geneticengine.algorithms.gp.operators.elitism import ElitismStep
                    from geneticengine.algorithms.gp.operators.novelty import NoveltyStep
                    kw["step"] = ParallelStep([ElitismStep(), NoveltyStep(),
                                               SequenceStep(TournamentSelection(3), GenericCrossoverStep(0.5), GenericMutationStep(0.5))],
                                              weights=[3, 1, 4])
                a = GeneticProgramming(problem, budget, rep, rs, population_size=cfg.get("pop", 8), population_initializer=init, **kw)
            elif alg == "RS":
                a = RandomSearch(problem, budget, rep, rs, **kw)
            elif alg == "HC":
                a = HC(problem, budget, rep, rs, number_of_mutations=3, **kw)
            else:
                a = OnePlusOne(problem, budget, rep, rs, **kw)
            best = a.search()
            ph = best.get_phenotype()
            k = term_key(term_of(ph)) + "|" + repr(ph)
            res = [hashlib.sha1(k.encode()).hexdigest()[:16], int(best.get_fitness(problem).fitness_components[0])]
            runs.append({"evals": seen, "result": res, "exc": ""})
        except Exception as e:  # recorded, judged by the spec
            runs.append({"evals": seen, "result": ["", 0], "exc": type(e).__name__})
    print("C08CHILD " + json.dumps(runs))


if __name__ == "__main__":
    main()
