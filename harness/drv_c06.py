"""C06 driver: crossover and mutation of all five representations, parents reached by create / mutate / crossover chains."""
from __future__ import annotations

import argparse

from harness.common import Batch, rng, write_summary, ranks, time_limit
from harness import grammars as GR
from harness.proj import declared_grammar, term_of, finalize

from geneticengine.grammar.grammar import extract_grammar
from geneticengine.random.sources import NativeRandomSource
from geneticengine.representations.tree.treebased import TreeBasedRepresentation
from geneticengine.representations.tree.initializations import MaxDepthDecider, ProgressivelyTerminalDecider
from geneticengine.representations.grammatical_evolution.ge import GrammaticalEvolutionRepresentation
from geneticengine.representations.grammatical_evolution.structured_ge import StructuredGrammaticalEvolutionRepresentation
from geneticengine.representations.grammatical_evolution.dynamic_structured_ge import (
    DynamicStructuredGrammaticalEvolutionRepresentation)
from geneticengine.representations.stackgggp import StackBasedGGGPRepresentation

FEATS = [
    {"intrange", "nested_abstract", "concrete_ref"},
    {"intrange", "sizedlist", "union"},
    {"intrange", "int", "bool", "varrange", "sizedlist"},
    {"intrange", "nested", "sizedlist"},
]


def lin_event(kind_e, rep, seqs):
    flat = [x for s in seqs for x in s]
    rk = ranks(flat)
    out, i = [], 0
    for s in seqs:
        out.append(rk[i:i + len(s)])
        i += len(s)
    return out


def struct_encode(dnas):
    """dnas: list of dict key -> gene list; common key order; genes rank-encoded jointly"""
    keys = []
    for d in dnas:
        for k in d:
            if not any(k is q or k == q for q in keys):
                keys.append(k)
    flat = [x for d in dnas for k in keys for x in d.get(k, [])]
    rk = ranks(flat)
    it = iter(rk)
    out = []
    for d in dnas:
        enc = []
        for k in keys:
            if k in d:
                enc.append({"has": True, "g": [next(it) for _ in d[k]]})
            else:
                enc.append({"has": False, "g": []})
        out.append(enc)
    return out


def snapshot(kind, g):
    if kind == "linear":
        return list(g.dna)
    if kind == "struct":
        return {k: list(v) for k, v in g.dna.items()}
    return g


def one_grammar(spec, R, batch, stats, quick):
    b = GR.build_raw(spec) if "source" in spec else GR.build(spec)
    try:
        g = extract_grammar(b.considered, b.start)
        decl = b.oracle()
        d = int(g.get_min_tree_depth()) + 2
        if not any(c["abstract"] and c["name"] == b.spec["start"] for c in b.spec["classes"]):
            d += 1
        evs = []
        rs = NativeRandomSource(R.randint(0, 10 ** 6))
        reps = [
            ("tree", "tree", TreeBasedRepresentation(g, MaxDepthDecider(rs, g, d))),
            ("tree-pt", "tree", TreeBasedRepresentation(g, ProgressivelyTerminalDecider(rs, g))),
            ("ge", "linear", GrammaticalEvolutionRepresentation(g, MaxDepthDecider(rs, g, d), gene_length=R.choice([1, 2, 3, 8, 40]))),
            ("sge", "struct", StructuredGrammaticalEvolutionRepresentation(g, MaxDepthDecider(rs, g, d), gene_length=R.choice([1, 2, 6]))),
            ("dsge", "struct", DynamicStructuredGrammaticalEvolutionRepresentation(g, d)),
            ("stack", "linear", StackBasedGGGPRepresentation(g, gene_length=R.choice([8, 300]))),
        ]
        n0 = 3 if quick else 5
        nops = 4 if quick else 12
        if not any(c["abstract"] and c["name"] == spec["start"] for c in b.spec["classes"]):
            nops *= 15      # concrete starting symbol: tree crossover really exchanges subtrees; go several generations deep
            n0 += 3
        for rname, kind, rep in reps:
            pool = []
            for _ in range(n0):
                try:
                    with time_limit(10):
                        gt = rep.create_genotype(rs)
                        if rname == "dsge":
                            rep.genotype_to_phenotype(gt)       # dSGE genes come into being while mapping
                    pool.append(gt)
                except Exception:
                    pass
            for _ in range(nops):
                if len(pool) < 2:
                    break
                a, c = pool[R.randrange(len(pool))], pool[R.randrange(len(pool))]
                sa, sc = snapshot(kind, a), snapshot(kind, c)
                try:
                    with time_limit(10):
                        c1, c2 = rep.crossover(rs, a, c)
                except Exception:
                    continue
                if kind == "tree":
                    evs.append({"e": "xo", "rep": rname, "kind": "tree", "p1": term_of(a), "p2": term_of(c),
                                "c1": term_of(c1), "c2": term_of(c2)})
                elif kind == "linear":
                    e1, e2, e3, e4 = lin_event("xo", rname, [sa, sc, list(c1.dna), list(c2.dna)])
                    evs.append({"e": "xo", "rep": rname, "kind": "linear", "p1": e1, "p2": e2, "c1": e3, "c2": e4})
                else:
                    e1, e2, e3, e4 = struct_encode([sa, sc, dict(c1.dna), dict(c2.dna)])
                    evs.append({"e": "xo", "rep": rname, "kind": "struct", "p1": e1, "p2": e2, "c1": e3, "c2": e4})
                pool += [c1, c2]
                if kind != "tree":
                    p = pool[R.randrange(len(pool))]
                    sp = snapshot(kind, p)
                    try:
                        with time_limit(10):
                            m = rep.mutate(rs, p)
                    except Exception:
                        continue
                    if kind == "linear":
                        e1, e2 = lin_event("mut", rname, [sp, list(m.dna)])
                        evs.append({"e": "mut", "rep": rname, "kind": "linear", "g": e1, "m": e2})
                    else:
                        e1, e2 = struct_encode([sp, dict(m.dna)])
                        evs.append({"e": "mut", "rep": rname, "kind": "struct", "g": e1, "m": e2})
                    pool.append(m)
                    if rname == "dsge":
                        try:
                            rep.genotype_to_phenotype(m)
                            rep.genotype_to_phenotype(c1)
                        except Exception:
                            pass
                else:
                    try:
                        pool.append(rep.mutate(rs, pool[R.randrange(len(pool))]))
                    except Exception:
                        pass
        # the mutation STEP (what a GP run applies): output i is a mutation of input i - at most one gene apart
        from geneticengine.algorithms.gp.operators.mutation import GenericMutationStep
        from geneticengine.evaluation.sequential import SequentialEvaluator
        from geneticengine.problems import SingleObjectiveProblem
        from geneticengine.solutions.individual import Individual
        prob = SingleObjectiveProblem(lambda p: 0.0)
        for rname, kind, rep in reps:
            if kind == "tree":
                continue
            gts = []
            for _ in range(4):
                try:
                    with time_limit(10):
                        gt = rep.create_genotype(rs)
                        if rname == "dsge":
                            rep.genotype_to_phenotype(gt)
                    gts.append(gt)
                except Exception:
                    pass
            for rnd in range(3 if quick else 10):
                inds = [Individual(gt, rep) for gt in gts]
                snaps = [snapshot(kind, gt) for gt in gts]
                try:
                    with time_limit(20):
                        out = list(GenericMutationStep(1.0).apply(prob, SequentialEvaluator(), rep, rs, inds, len(inds), rnd + 1))
                except Exception:
                    break
                for sp, o in zip(snaps, out):
                    if kind == "linear":
                        e1, e2 = lin_event("mut", rname, [sp, list(o.genotype.dna)])
                        evs.append({"e": "mut", "rep": rname, "kind": "linear", "g": e1, "m": e2})
                    else:
                        e1, e2 = struct_encode([sp, dict(o.genotype.dna)])
                        evs.append({"e": "mut", "rep": rname, "kind": "struct", "g": e1, "m": e2})
                if rnd == 0:
                    # the same step asked for MORE individuals than it is given: whatever it yields beyond its input is still
                    # a mutation of one input individual (the nearest one is offered to the specification as the witness)
                    inds2 = [Individual(gt, rep) for gt in gts]
                    try:
                        with time_limit(20):
                            out2 = list(GenericMutationStep(1.0).apply(prob, SequentialEvaluator(), rep, rs, inds2, len(inds2) + 3, 1))
                    except Exception:
                        out2 = []

                    def far(sp, o):
                        if kind == "linear":
                            a_, b_ = list(sp), list(o.genotype.dna)
                            return abs(len(a_) - len(b_)) * 1000 + sum(1 for x, y in zip(a_, b_) if x != y)
                        a_, b_ = sp, dict(o.genotype.dna)
                        return sum(abs(len(a_.get(k, [])) - len(b_.get(k, []))) * 1000 +
                                   sum(1 for x, y in zip(a_.get(k, []), b_.get(k, [])) if x != y) for k in set(a_) | set(b_))
                    for i, o in enumerate(out2):
                        sp = snaps[i] if i < len(snaps) else min(snaps, key=lambda s_: far(s_, o))
                        if kind == "linear":
                            e1, e2 = lin_event("mut", rname, [sp, list(o.genotype.dna)])
                            evs.append({"e": "mut", "rep": rname, "kind": "linear", "g": e1, "m": e2})
                        else:
                            e1, e2 = struct_encode([sp, dict(o.genotype.dna)])
                            evs.append({"e": "mut", "rep": rname, "kind": "struct", "g": e1, "m": e2})
                gts = [o.genotype for o in out]
                if rname == "dsge":
                    for gt in gts:
                        try:
                            rep.genotype_to_phenotype(gt)
                        except Exception:
                            pass
        batch.trace(spec["id"], evs, {"k": "c06", "g": decl})
        stats["events"] += len(evs)
    finally:
        b.dispose()


def main():
    ap = argparse.ArgumentParser()
    ap.add_argument("--out", required=True)
    ap.add_argument("--tier", default="quick")
    ap.add_argument("--seed", type=int, default=0)
    ap.add_argument("--shards", type=int, default=1)
    a = ap.parse_args()
    R = rng(a.seed, "c06")
    batch = Batch("C06", {"tier": a.tier, "seed": a.seed, "prop": "C06"})
    stats = {"events": 0}
    quick = a.tier == "quick"
    specs = GR.fixed_specs() + list(GR.RAW) + GR.family(R, 40 if quick else 500, FEATS)
    for spec in specs:
        one_grammar(spec, R, batch, stats, quick)
    batch.traces = finalize(batch.traces)
    paths = batch.shards(a.out, a.shards)
    write_summary(a.out, {"batches": paths, "traces": len(batch.traces), "events": stats["events"]})


if __name__ == "__main__":
    main()
