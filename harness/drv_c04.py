"""C04 driver (E): every program creatable at depth d, by driving the real code through ALL decision sequences."""
from __future__ import annotations

import argparse

from harness.common import Batch, rng, write_summary, exc_name
from harness import grammars as GR
from harness.proj import declared_grammar, term_of, term_key, finalize
from harness.sources import explore, Exhausted
from harness.drv_c05 import finite_choice

from geneticengine.grammar.grammar import extract_grammar
from geneticengine.random.sources import RandomSource
from geneticengine.problems import SingleObjectiveProblem
from geneticengine.representations.tree.treebased import TreeBasedRepresentation
from geneticengine.representations.tree.initializations import (MaxDepthDecider, PositionIndependentGrowDecider)
from geneticengine.representations.tree.operators import FullInitializer

FEATS = [
    {"intrange", "nested_abstract"},
    {"intrange", "sizedlist", "nested_abstract"},
    {"intrange", "union", "concrete_ref"},
    {"intrange", "varrange", "bool", "sizedlist", "union"},
    {"intlist", "sizedlist", "concrete_ref", "nested_abstract"},
]


def enumerate_set(g, decider, d, cap):
    """-> (terms, errors) of every leaf of the decision tree, or None when the tree exceeds the cap"""
    def run(src):
        if decider == "grow":
            return TreeBasedRepresentation(g, MaxDepthDecider(src, g, d)).create_genotype(src)
        if decider == "pigrow":
            return TreeBasedRepresentation(g, PositionIndependentGrowDecider(src, g, d)).create_genotype(src)
        # "full creation" = the public FullInitializer
        rep = TreeBasedRepresentation(g, MaxDepthDecider(src, g, d))
        inds = list(FullInitializer(d).initialize(None, rep, src, 1))
        return inds[0].genotype

    seen, terms, errors = set(), [], []
    try:
        for script, src, res in explore(run, cap=64, max_leaves=cap):
            if isinstance(res, Exception):
                errors.append(exc_name(res))
                continue
            t = term_of(res)
            k = term_key(t)
            if k not in seen:
                seen.add(k)
                terms.append(t)
    except Exhausted:
        # the decision tree is larger than the budget: what was reached so far is still evidence (a program outside
        # the language is a violation however many others there are); reported as an INCOMPLETE set
        return terms[: max(cap // 8, 50)], sorted(set(errors)), False
    return terms, sorted(set(errors)), True


class _Proxy(RandomSource):
    """a source whose raw draws come from whatever scripted source is plugged in: lets ONE representation object be driven
    through many explorations"""
    inner = None

    def randint(self, min, max):
        return self.inner.randint(min, max)

    def random_float(self, min, max):
        return self.inner.random_float(min, max)


def enumerate_with(rep, proxy, cap):
    seen, terms = set(), []

    def run(src):
        proxy.inner = src
        return rep.create_genotype(proxy)
    try:
        for script, src, res in explore(run, cap=64, max_leaves=cap):
            if isinstance(res, Exception):
                continue
            t = term_of(res)
            k = term_key(t)
            if k not in seen:
                seen.add(k)
                terms.append(t)
    except Exhausted:
        return terms[: max(cap // 8, 50)], False
    return terms, True


def one_lent(spec, batch, stats, cap):
    """ONE representation object configured for grow at depth d: what it can create is the bounded language before AND
    after it was lent to initialisers that create with deciders of their own"""
    from geneticengine.random.sources import NativeRandomSource
    from geneticengine.representations.tree.operators import GrowInitializer
    b = GR.build(spec)
    try:
        g = extract_grammar(b.considered, b.start)
        decl = b.oracle()
        mind = int(g.get_min_tree_depth())
        if mind > 12 or GR.lang_size(spec, mind + 1) > cap // 4:
            return
        d = mind + 1
        proxy = _Proxy()
        rep = TreeBasedRepresentation(g, MaxDepthDecider(proxy, g, d))
        evs = []
        t1, c1 = enumerate_with(rep, proxy, cap)
        evs.append({"e": "impl_set", "decider": "grow", "d": d, "programs": t1, "errors": [], "phase": "single", "complete": c1})
        try:
            rs = NativeRandomSource(5)
            list(FullInitializer(max(mind, 1)).initialize(None, rep, rs, 2))
            list(GrowInitializer().initialize(None, rep, rs, 2))
        except Exception:
            pass
        t2, c2 = enumerate_with(rep, proxy, cap)
        evs.append({"e": "impl_set", "decider": "grow", "d": d, "programs": t2, "errors": [], "phase": "single", "complete": c2})
        batch.trace(spec["id"] + "/lent", evs, {"k": "c04", "g": decl})
        stats["events"] += 2
        stats["programs"] += len(t1) + len(t2)
    finally:
        b.dispose()


def one(spec, batch, stats, cap, prop, concrete_only=False):
    b = GR.build(spec)
    try:
        considered = b.considered
        if concrete_only:
            # only the concrete classes are handed to extract_grammar (intermediate abstract types are found through them)
            abstract_names = {c["name"] for c in spec["classes"] if c["abstract"]}
            if not any(c["abstract"] and c["parent"] for c in spec["classes"]):
                return
            considered = [c for c in b.considered if c.__name__ not in abstract_names]
        g = extract_grammar(considered, b.start)
        decl = b.oracle()
        mind = int(g.get_min_tree_depth())
        if mind > 12:
            return          # an absurd reported minimum (e.g. "unreachable") is C05's business; nothing to enumerate here
        evs = []
        for decider in ("grow", "pigrow", "full"):
            for d in range(max(mind, 1), mind + 4):
                if GR.lang_size(spec, d) > 4 * cap:
                    break       # count first: TLC has to build Lang(d) itself (FullLang filters it), keep it affordable
                terms, errors, complete = enumerate_set(g, decider, d, cap)
                if len(terms) > cap // 4:
                    break
                evs.append({"e": "impl_set", "decider": decider, "d": d, "programs": terms, "errors": errors,
                            "phase": "single", "complete": complete})
                stats["programs"] += len(terms)
                if not complete:
                    break
        if evs:
            batch.trace(spec["id"] + ("/concrete-only" if concrete_only else ""), evs, {"k": "c04", "g": decl})
            stats["events"] += len(evs)
    finally:
        b.dispose()


def one_redeclared(spec, batch, stats, cap):
    """the documented re-declaration idiom (X.__init__.__annotations__[f] = Annotated[...]) on classes that have already
    been used: the creatable set must be the language of the grammar AS NOW DECLARED"""
    from typing import Annotated
    from geneticengine.grammar.metahandlers.ints import IntRange
    from geneticengine.random.sources import NativeRandomSource
    b = GR.build(spec)
    try:
        g0 = extract_grammar(b.considered, b.start)
        d0 = int(g0.get_min_tree_depth()) + 1
        rs = NativeRandomSource(3)
        for _ in range(5):                     # use the classes once
            try:
                TreeBasedRepresentation(g0, MaxDepthDecider(rs, g0, d0)).create_genotype(rs)
            except Exception:
                pass
        changed = 0
        for c in spec["classes"]:
            for (fname, f) in c["fields"]:
                if f[0] == "ann" and f[1] == ("base", "int") and f[2][0] == "IntRange":
                    b.classes[c["name"]].__init__.__annotations__[fname] = Annotated[int, IntRange(f[2][1] + 1, f[2][2] + 2)]
                    changed += 1
        if not changed:
            return
        g = extract_grammar(b.considered, b.start)
        decl = b.oracle()     # read again: the declaration as it now stands
        mind = int(g.get_min_tree_depth())
        if mind > 12:
            return
        evs = []
        for d in range(max(mind, 1), mind + 2):
            r = enumerate_set(g, "grow", d, cap)
            if len(r[0]) > cap // 4:
                break
            evs.append({"e": "impl_set", "decider": "grow", "d": d, "programs": r[0], "errors": r[1], "phase": "single",
                        "complete": r[2]})
            stats["programs"] += len(r[0])
            if not r[2]:
                break
        if evs:
            batch.trace(spec["id"] + "/redeclared", evs, {"k": "c04", "g": decl})
            stats["events"] += len(evs)
    finally:
        b.dispose()


def one_c10(spec, batch, stats, cap):
    """the creatable set, enumerated on the SAME Grammar object before and after a workload that fails / backtracks"""
    from geneticengine.random.sources import NativeRandomSource
    b = GR.build_raw(spec) if "source" in spec else GR.build(spec)
    try:
        g = extract_grammar(b.considered, b.start)
        decl = b.oracle()
        mind = int(g.get_min_tree_depth())
        if mind > 12:
            return
        d = mind + 1
        r = enumerate_set(g, "grow", d, cap)
        if not r[2]:
            return
        evs = [{"e": "impl_set", "decider": "grow", "d": d, "programs": r[0], "errors": r[1], "phase": "before", "complete": True}]
        # ONE representation (and decider) object that goes through the same failing / backtracking operations and is then
        # asked for everything it can create: what an operation learnt in one context may not narrow the next operation
        proxy = _Proxy()
        rep1 = TreeBasedRepresentation(g, MaxDepthDecider(proxy, g, d))
        for seed in range(25):
            proxy.inner = NativeRandomSource(1000 + seed)
            try:
                t = rep1.create_genotype(proxy)
                rep1.mutate(proxy, t)
                rep1.crossover(proxy, t, t)
            except Exception:
                pass
        for seed in range(25):
            rs = NativeRandomSource(seed)
            for dd in (mind - 1, mind, mind + 2):
                try:
                    rep = TreeBasedRepresentation(g, MaxDepthDecider(rs, g, dd))
                    t = rep.create_genotype(rs)
                    rep.mutate(rs, t)
                    rep.crossover(rs, t, t)
                except Exception:
                    pass
        r2 = enumerate_set(g, "grow", d, cap * 4)
        if not r2[2]:
            r2 = ([], ["enumeration-exceeded-cap"], True)
        evs.append({"e": "impl_set", "decider": "grow", "d": d, "programs": r2[0], "errors": r2[1], "phase": "after", "complete": True})
        r3 = enumerate_with(rep1, proxy, cap * 4)
        if r3[1]:
            evs.append({"e": "impl_set", "decider": "grow", "d": d, "programs": r3[0], "errors": r2[1], "phase": "after", "complete": True})
        batch.trace("c10/" + spec["id"], evs, {"k": "c04", "g": decl})
        stats["events"] += 2
        stats["programs"] += len(r[0]) + len(r2[0])
    finally:
        b.dispose()


class _Collect:
    """stands in for a Batch inside a worker process: collects (id, events, cfg) triples"""
    def __init__(self):
        self.items = []

    def trace(self, tid, evs, cfg=None):
        self.items.append((tid, evs, cfg))


def _job(args):
    kind, spec, cap, prop = args
    c, stats = _Collect(), {"events": 0, "programs": 0}
    if kind == "one":
        one(spec, c, stats, cap, prop)
    elif kind == "concrete-only":
        one(spec, c, stats, cap, prop, concrete_only=True)
    elif kind == "lent":
        one_lent(spec, c, stats, cap)
    elif kind == "redeclared":
        one_redeclared(spec, c, stats, cap)
    else:
        one_c10(spec, c, stats, cap)
    return c.items, stats


def run_jobs(jobs, batch, stats, workers):
    import concurrent.futures as cf
    if workers <= 1:
        results = map(_job, jobs)
    else:
        ex = cf.ProcessPoolExecutor(max_workers=workers)
        results = ex.map(_job, jobs, chunksize=1)
    for items, st in results:           # in submission order: the batch does not depend on scheduling
        for tid, evs, cfg in items:
            batch.trace(tid, evs, cfg)
        for k in st:
            stats[k] += st[k]


def main():
    ap = argparse.ArgumentParser()
    ap.add_argument("--out", required=True)
    ap.add_argument("--tier", default="quick")
    ap.add_argument("--seed", type=int, default=0)
    ap.add_argument("--shards", type=int, default=1)
    ap.add_argument("--prop", default="C04")
    a = ap.parse_args()
    R = rng(a.seed, "c04")
    batch = Batch(a.prop, {"tier": a.tier, "seed": a.seed, "prop": a.prop})
    stats = {"events": 0, "programs": 0}
    quick = a.tier == "quick"
    cap = 2000 if quick else 6000       # programs per set also bound the size of the batch TLC has to read
    specs = [s for s in GR.fixed_specs() if finite_choice(s)]
    fam = [s for s in GR.family(R, 60 if quick else 600, FEATS) if finite_choice(s)]
    jobs = []
    if a.prop == "C10":
        for spec in list(GR.RAW) + specs + fam[: (12 if quick else 150)]:
            jobs.append(("c10", spec, cap, a.prop))
    else:
        for spec in specs + fam[: (30 if quick else 300)]:
            jobs.append(("one", spec, cap, a.prop))
        for spec in specs + fam[: (10 if quick else 100)]:
            if GR.lang_size(spec, 3) <= cap:
                jobs.append(("redeclared", spec, cap, a.prop))
        for spec in specs + fam[: (12 if quick else 150)]:
            jobs.append(("concrete-only", spec, cap, a.prop))
        for spec in specs + fam[: (6 if quick else 80)]:
            jobs.append(("lent", spec, cap, a.prop))
    run_jobs(jobs, batch, stats, 4 if quick else 14)
    batch.traces = finalize(batch.traces)
    paths = batch.shards(a.out, a.shards)
    write_summary(a.out, {"batches": paths, "traces": len(batch.traces), "events": stats["events"],
                          "programs": stats["programs"]})


if __name__ == "__main__":
    main()
