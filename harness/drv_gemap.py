"""Functional conformance of the GE mapping: genotypes with small genes mapped by the real
GrammaticalEvolutionRepresentation (MaxDepthDecider); TLC recomputes the phenotype with GEMapFn."""
from __future__ import annotations

import argparse

from harness.common import Batch, rng, write_summary, exc_name, time_limit
from harness import grammars as GR
from harness.proj import declared_grammar, impl_grammar, term_of, finalize
from harness.drv_c05 import finite_choice

from geneticengine.grammar.grammar import extract_grammar
from geneticengine.random.sources import NativeRandomSource
from geneticengine.representations.tree.initializations import MaxDepthDecider
from geneticengine.representations.grammatical_evolution.ge import GrammaticalEvolutionRepresentation, Genotype
from geneticengine.representations.grammatical_evolution.structured_ge import (StructuredGrammaticalEvolutionRepresentation,
                                                                                INFRASTRUCTURE_KEY)

FEATS = [
    {"intrange", "nested_abstract", "concrete_ref"},
    {"intrange", "sizedlist", "union", "nested_abstract", "bool"},
    {"intrange", "varrange", "intlist", "sizedlist", "tuple"},
    {"intrange", "plainlist", "union", "nested"},
]


def main():
    ap = argparse.ArgumentParser()
    ap.add_argument("--out", required=True)
    ap.add_argument("--tier", default="quick")
    ap.add_argument("--seed", type=int, default=0)
    ap.add_argument("--shards", type=int, default=1)
    ap.add_argument("--gen", default="")
    a = ap.parse_args()
    R = rng(a.seed, "gemap")
    batch = Batch("C07", {"tier": a.tier, "seed": a.seed, "prop": "C07"})
    nev = 0
    quick = a.tier == "quick"
    specs = [s for s in GR.fixed_specs() + GR.family(R, 40 if quick else 500, FEATS)]
    for spec in specs:
        b = GR.build(spec)
        try:
            g = extract_grammar(b.considered, b.start)
            decl = b.oracle()
            mind = int(g.get_min_tree_depth())
            evs = []
            for d in (mind, mind + 1, mind + 2):
                for _ in range(3 if quick else 10):
                    rs = NativeRandomSource(R.randint(0, 10 ** 6))      # a shared source that the mapping must not touch
                    rep = GrammaticalEvolutionRepresentation(g, MaxDepthDecider(rs, g, d), gene_length=64)
                    n = R.choice([1, 2, 5, 13, 64])
                    genes = [R.randint(0, 2 ** 20) for _ in range(n)]
                    try:
                        with time_limit(10):
                            prog = rep.genotype_to_phenotype(Genotype(list(genes)))
                        evs.append({"e": "gemap", "rep": "ge", "genes": genes, "d": d, "prog": term_of(prog), "exc": ""})
                    except Exception as e:
                        evs.append({"e": "gemap", "rep": "ge", "genes": genes, "d": d, "prog": term_of(0), "exc": exc_name(e)})
                    # structured GE reads every decision from its "$infrastructure" list with the same index rule
                    srep = StructuredGrammaticalEvolutionRepresentation(g, MaxDepthDecider(rs, g, d), gene_length=8)
                    sg = srep.create_genotype(rs)
                    sg.dna[INFRASTRUCTURE_KEY] = list(genes)
                    try:
                        with time_limit(10):
                            prog = srep.genotype_to_phenotype(sg)
                        evs.append({"e": "gemap", "rep": "sge", "genes": genes, "d": d, "prog": term_of(prog), "exc": ""})
                    except Exception as e:
                        evs.append({"e": "gemap", "rep": "sge", "genes": genes, "d": d, "prog": term_of(0), "exc": exc_name(e)})
            batch.trace(spec["id"], evs, {"k": "gemap", "g": decl, "impl0": impl_grammar(g)})
            nev += len(evs)
        finally:
            b.dispose()
    batch.traces = finalize(batch.traces)
    paths = batch.shards(a.out, a.shards)
    write_summary(a.out, {"batches": paths, "traces": len(batch.traces), "events": nev})


if __name__ == "__main__":
    main()
