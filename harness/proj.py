"""The projection pi: Python objects of the library -> JSON terms for the TLA+ specification.

pi is purely structural (class names, exact type names, declared field order, attribute values) and
takes NO property-relevant decision: typing, refinement, depth, metadata and equality predicates are
all evaluated by TLC on pi's output.

Type forms   {"k": base|sym|list|tuple|union|ann|other, "s": name, "es": [forms], "mh": {...}}
Terms        {"k": node|list|tuple|val|foreign, "ty": type name, "iv": int, "cs": [code points],
              "kids": [terms], "m": metadata record}
Floats never reach TLC: they are wrapped in F(...) and replaced, per batch, by their dense ranks
(an order isomorphism) in `finalize`.
"""
from __future__ import annotations

import abc
import dataclasses
import sys
import types
import typing
from typing import Any, Union, get_args, get_origin

LIM = 2 ** 30


class F:
    """a float (or any number compared only by order) awaiting rank encoding"""
    __slots__ = ("v",)

    def __init__(self, v):
        self.v = float(v)


def finalize(obj):
    """replace every F marker in a JSON-like tree by the dense rank of its value within the tree"""
    vals = set()

    def collect(x):
        if isinstance(x, F):
            if x.v == x.v:          # NaN has no place in the order: every NaN is encoded as -1 (equal to every other NaN)
                vals.add(x.v)
        elif isinstance(x, dict):
            for y in x.values():
                collect(y)
        elif isinstance(x, (list, tuple)):
            for y in x:
                collect(y)

    collect(obj)
    order = {v: i for i, v in enumerate(sorted(vals))}

    def rep(x):
        if isinstance(x, F):
            return order[x.v] if x.v == x.v else -1
        if isinstance(x, dict):
            return {k: rep(y) for k, y in x.items()}
        if isinstance(x, (list, tuple)):
            return [rep(y) for y in x]
        return x

    return rep(obj)


def cs_of(s: str, cap=96):
    return [ord(c) for c in s[:cap]]


NO_MH = {"k": "none"}


# ------------------------------------------------------------------------------------------------
# type forms

def mh_of(mh) -> dict:
    n = type(mh).__name__
    if n == "IntRange":
        return {"k": "IntRange", "lo": mh.min, "hi": mh.max}
    if n == "IntList":
        return {"k": "IntList", "vals": list(mh.elements)}
    if n == "FloatRange":
        return {"k": "FloatRange", "lo": F(mh.min), "hi": F(mh.max)}
    if n == "FloatList":
        return {"k": "FloatList", "vals": [F(x) for x in mh.elements]}
    if n == "VarRange":
        return {"k": "VarRange", "opts": [cs_of(str(o)) for o in mh.options],
                "strs": all(isinstance(o, str) for o in mh.options)}
    if n in ("ListSizeBetween", "ListSizeBetweenWithoutListOperations"):
        return {"k": "ListSize", "lo": mh.min, "hi": mh.max, "ops": n == "ListSizeBetween"}
    if n == "StringSizeBetween":
        return {"k": "StrSize", "lo": mh.min, "hi": mh.max, "alpha": [ord(c) for c in mh.options]}
    if n == "WeightedStringHandler":
        # forbid[i]: the letters whose declared probability at position i is zero
        return {"k": "WeightedStr", "rows": int(mh.probability_matrix.shape[0]),
                "alpha": [ord(c) for c in mh.alphabet],
                "forbid": [[ord(c) for c, pr in zip(mh.alphabet, row) if float(pr) == 0.0] for row in mh.probability_matrix]}
    if n == "IntervalRange":
        return {"k": "Interval", "minl": mh.minimum_length, "maxl": mh.maximum_length, "top": mh.maximum_top_limit}
    if n == "Dependent":
        tag = getattr(mh.callable, "verif_tag", None)
        d = {"k": "Dependent", "deps": mh.name.split(","), "fn": "unknown", "K": 0}
        if tag:
            d.update(tag)
        return d
    tag = getattr(mh, "verif_tag", None)
    if tag:
        d = {"k": "Custom", "name": n}
        d.update(tag)
        return d
    return {"k": "Unknown", "name": n}


def form_of(ty) -> dict:
    if ty is int or ty is float or ty is str or ty is bool:
        return {"k": "base", "s": ty.__name__, "es": [], "mh": NO_MH}
    if hasattr(ty, "__metadata__"):
        inner = ty.__origin__
        return {"k": "ann", "s": "", "es": [form_of(inner)], "mh": mh_of(ty.__metadata__[0])}
    origin = get_origin(ty)
    if origin is list:
        return {"k": "list", "s": "", "es": [form_of(get_args(ty)[0])], "mh": NO_MH}
    if origin is tuple:
        return {"k": "tuple", "s": "", "es": [form_of(a) for a in get_args(ty) if a is not Ellipsis], "mh": NO_MH}
    if origin is Union or origin is types.UnionType:
        return {"k": "union", "s": "", "es": [form_of(a) for a in get_args(ty)], "mh": NO_MH}
    if isinstance(ty, type):
        return {"k": "sym", "s": ty.__name__, "es": [], "mh": NO_MH}
    return {"k": "other", "s": repr(ty)[:60], "es": [], "mh": NO_MH}


def fields_of(cls) -> list:
    """declared constructor fields (name, annotation) in order, read with typing only"""
    init = getattr(cls, "__init__", None)
    if init is None or init is object.__init__:
        return []
    try:
        hints = typing.get_type_hints(init, globalns=sys.modules[cls.__module__].__dict__, include_extras=True)
    except Exception:
        hints = dict(getattr(init, "__annotations__", {}))
    return [(n, t) for n, t in hints.items() if n != "return"]


def is_abstract_decl(cls) -> bool:
    if not isinstance(cls, type):
        return False
    base = cls.__mro__[1] if len(cls.__mro__) > 1 else object
    if base is abc.ABC or base is typing.Protocol:
        return True
    return bool(cls.__dict__.get("__gengy__", {}).get("abstract", False))


_SKIP_PARENTS = (object, abc.ABC, typing.Generic, typing.Protocol, int, bool, float, str)


def class_decl(cls) -> dict:
    parent = cls.__mro__[1] if len(cls.__mro__) > 1 else object
    pname = "" if parent in _SKIP_PARENTS else parent.__name__
    absf = is_abstract_decl(cls)
    fields = [] if absf else [{"n": n, "f": form_of(t)} for n, t in fields_of(cls)]
    w = cls.__dict__.get("__gengy__", {}).get("weight", None)
    return {"name": cls.__name__, "parent": pname, "abstract": absf, "fields": fields,
            "hasw": w is not None, "w": int(round(w * 10000)) if w is not None else 10000}


def declared_grammar(classes, start) -> dict:
    """pi of the class declarations: the typing oracle, read independently of extract_grammar"""
    seen, order = set(), []

    def add(c):
        if c in seen or not isinstance(c, type) or c in _SKIP_PARENTS:
            return
        seen.add(c)
        order.append(c)
        p = c.__mro__[1] if len(c.__mro__) > 1 else object
        add(p)

    add(start)
    for c in classes:
        add(c)
    decls = {c.__name__: class_decl(c) for c in order}
    assert len(decls) == len(order), "class names must be unique within a grammar"
    return {"start": start.__name__, "classes": decls, "names": [c.__name__ for c in order]}


def tname(t):
    if isinstance(t, type):
        return t.__name__
    return form_key(form_of(t))


def form_key(f) -> str:
    if f["k"] in ("base", "sym", "other"):
        return f["s"]
    if f["k"] == "ann":
        return "ann(" + form_key(f["es"][0]) + ")"
    return f["k"] + "(" + ",".join(form_key(e) for e in f["es"]) + ")"


def impl_grammar(g) -> dict:
    """pi of the library's Grammar object (its public attributes)"""
    def nm(t):
        return tname(t)

    alts = {nm(k): [nm(p) for p in v] for k, v in g.alternatives.items()}
    dist = {}
    for k, v in g.distanceToTerminal.items():
        dist[nm(k)] = int(v)
    weights = {}
    try:
        for k, v in g.get_weights().items():
            weights[nm(k)] = int(round(v * 10000))
    except Exception:
        pass
    return {"start": nm(g.starting_symbol), "alts": alts, "altkeys": sorted(alts.keys()), "dist": dist,
            "recursive": sorted(nm(t) for t in g.recursive_prods),
            "nodes": sorted(nm(t) for t in g.all_nodes),
            "mindepth": int(g.get_min_tree_depth()), "expd": bool(g.expansion_depthing),
            "weights": weights, "wkeys": sorted(weights.keys()),
            # the table of abstract-layer hops (a defaultdict: counted without looking anything up)
            "absdist": [len(getattr(g, "abstract_dist_to_t", {})),
                        sum(len(v) for v in getattr(g, "abstract_dist_to_t", {}).values())]}


# ------------------------------------------------------------------------------------------------
# terms

NO_META = {"has": False}


def meta_of(v, root_index) -> dict:
    """the gengy_* labels of a node, as found (no recomputation)"""
    if not getattr(v, "gengy_labeled", False) or not hasattr(v, "gengy_nodes"):
        return {"has": False}
    ttw = getattr(v, "gengy_types_this_way", {}) or {}
    idx = []
    for cls, objs in ttw.items():
        if not isinstance(cls, type) or cls.__module__ == "builtins" or cls.__name__ == "GengyList":
            continue            # the property speaks of the node types below; base values / list wrappers are skipped
        paths = []
        for o in objs:
            paths.append(root_index.get(id(o), "outside"))
        idx.append({"c": cls.__name__ if isinstance(cls, type) else str(cls), "ps": sorted(paths)})
    idx.sort(key=lambda d: d["c"])
    ctx = getattr(v, "gengy_synthesis_context", None)
    return {"has": True, "nodes": int(v.gengy_nodes), "dist": int(v.gengy_distance_to_term),
            "wn": int(v.gengy_weighted_nodes), "ttw": idx,
            "ctx": [int(ctx.depth), int(ctx.nodes), int(ctx.expansions)] if ctx is not None else []}


def _is_node(v) -> bool:
    return not isinstance(v, (bool, int, float, str, list, tuple, dict, set, types.GeneratorType)) \
        and type(v).__module__ != "builtins"


def index_paths(v, path="r", out=None):
    """id(object) -> path for every node / list object of a program (first occurrence wins)"""
    out = {} if out is None else out
    if isinstance(v, (list, tuple)):
        out.setdefault(id(v), path)
        for i, c in enumerate(v):
            index_paths(c, f"{path}.{i}", out)
    elif _is_node(v):
        out.setdefault(id(v), path)
        for i, (n, _) in enumerate(fields_of(type(v))):
            if hasattr(v, n):
                index_paths(getattr(v, n), f"{path}.{i}", out)
    return out


def term_of(v: Any, meta=False, _idx=None, _depth=0) -> dict:
    if _depth > 400:
        return {"k": "foreign", "ty": "too-deep", "iv": 0, "cs": [], "kids": [], "m": NO_META}
    if meta and _idx is None:
        _idx = index_paths(v)
    if isinstance(v, bool):
        return {"k": "val", "ty": "bool", "iv": int(v), "cs": [], "kids": [], "m": NO_META}
    if isinstance(v, int):
        return {"k": "val", "ty": "int", "iv": v if -LIM < v < LIM else 0, "cs": [], "kids": [], "m": NO_META}
    if isinstance(v, float):
        return {"k": "val", "ty": "float", "iv": F(v) if v == v else -1, "cs": [], "kids": [], "m": NO_META}
    if isinstance(v, str):
        return {"k": "val", "ty": "str", "iv": len(v), "cs": cs_of(v), "kids": [], "m": NO_META}
    if isinstance(v, list):
        m = meta_of(v, _idx) if meta else NO_META
        return {"k": "list", "ty": "list", "iv": 0, "cs": [],
                "kids": [term_of(c, meta, _idx, _depth + 1) for c in v], "m": m}
    if isinstance(v, tuple):
        return {"k": "tuple", "ty": "tuple", "iv": 0, "cs": [],
                "kids": [term_of(c, meta, _idx, _depth + 1) for c in v], "m": NO_META}
    if _is_node(v):
        kids = []
        for n, _ in fields_of(type(v)):
            if hasattr(v, n):
                kids.append(term_of(getattr(v, n), meta, _idx, _depth + 1))
            else:
                kids.append({"k": "foreign", "ty": "missing-field", "iv": 0, "cs": [], "kids": [], "m": NO_META})
        m = meta_of(v, _idx) if meta else NO_META
        return {"k": "node", "ty": type(v).__name__, "iv": 0, "cs": [], "kids": kids, "m": m}
    return {"k": "foreign", "ty": type(v).__name__, "iv": 0, "cs": [], "kids": [], "m": NO_META}


def term_key(t) -> str:
    """canonical text of a term (structure and values), used for digests and set comparison"""
    if t["k"] == "val":
        iv = t["iv"].v if isinstance(t["iv"], F) else t["iv"]
        return f"{t['ty']}:{iv}:{','.join(map(str, t['cs']))}"
    if t["k"] == "foreign":
        return "foreign:" + t["ty"]
    head = t["ty"] if t["k"] == "node" else t["k"]
    return head + "(" + ",".join(term_key(c) for c in t["kids"]) + ")"
