"""C07 driver (R)+(T): TLC-generated interleavings replayed on the real genotype-based representations."""
from __future__ import annotations

import argparse, copy
import json

from harness.common import Batch, rng, write_summary, exc_name, time_limit
from harness import grammars as GR
from harness.proj import declared_grammar, term_of, finalize
from harness.sources import RecordingSource
from harness.drv_c06 import struct_encode

from geneticengine.grammar.grammar import extract_grammar
from geneticengine.random.sources import NativeRandomSource
from geneticengine.representations.tree.initializations import (MaxDepthDecider, PositionIndependentGrowDecider,
                                                                 ProgressivelyTerminalDecider, FullDecider)
from geneticengine.representations.grammatical_evolution.ge import GrammaticalEvolutionRepresentation
from geneticengine.representations.grammatical_evolution.structured_ge import StructuredGrammaticalEvolutionRepresentation
from geneticengine.representations.grammatical_evolution.dynamic_structured_ge import (
    DynamicStructuredGrammaticalEvolutionRepresentation)
from geneticengine.representations.stackgggp import StackBasedGGGPRepresentation

# with and without refined fields (metahandlers draw from the synthesis context's random source)
SPEC_IDS = ["arith", "sizedlist", "nested", "bases", "mutual", "refined", "plainlist", "union", "nestedgen", "concstart",
            "depnested"]


def genes_of(gt):
    d = gt.dna
    if isinstance(d, dict):
        return {k: list(v) for k, v in d.items()}
    return {"dna": list(d)}


def used_decider(dec, g, src):
    from geneticengine.representations.tree.treebased import TreeBasedRepresentation
    try:
        with time_limit(10):
            tree = TreeBasedRepresentation(g, dec)
            t = tree.create_genotype(src)
            tree.mutate(src, t)
            dec.random_bool()
            dec.random_int()
            dec.random_float()
    except Exception:
        pass
    return dec


def run_sequence(R, g, rname, mk, seq, refined, fresh_ok=True):
    src = RecordingSource(NativeRandomSource(R.randint(0, 10 ** 6)))
    rep = mk(src)
    genos = []
    evs = []
    content_ids = {}
    rep_used = rep

    def fresh_rep():
        # a second representation object of the same grammar, built around a source of its own: no history at all
        return mk(NativeRandomSource(7))

    def pick(i):
        return genos[i % len(genos)] if genos else None

    for act, i in [("create", 0)] + [tuple(x) for x in seq]:
        try:
            with time_limit(10):
                if act == "create":
                    genos.append(rep.create_genotype(src))
                elif act == "draw":
                    src.randint(0, 100)
                    src.random_float(0.0, 1.0)
                    # the decider object the representation was built around stays in its owner's hands: it goes on being
                    # used directly (a tree representation sharing it) between two mappings
                    if getattr(rep, "decider", None) is not None and i % 2 == 0:
                        used_decider(rep.decider, g, src)
                elif act == "mutate" and genos:
                    genos.append(rep.mutate(src, pick(i)))
                elif act == "xo" and genos:
                    a, b = rep.crossover(src, pick(i), pick(i + 1))
                    genos += [a, b]
                elif act == "recycle" and genos and rname != "dsge":
                    # a genotype is mapped and dies; a new object of the same class with the same codons in another order
                    # is allocated straight afterwards (CPython hands out the freed address again) and joins the family
                    old = genos.pop()
                    try:
                        rep.genotype_to_phenotype(old)
                    except Exception:
                        pass
                    cls, state = type(old), copy.deepcopy(old.__dict__)
                    d = state.get("dna")
                    if isinstance(d, dict):
                        for v in d.values():
                            if isinstance(v, list):
                                v.reverse()
                    elif isinstance(d, list):
                        d.reverse()
                    del old
                    new = cls.__new__(cls)
                    new.__dict__.update(state)
                    genos.append(new)
                elif act == "recycle":
                    pass  # dynamic SGE: identity is the object, nothing to recycle
                elif act == "map" and genos:
                    gt = pick(i)
                    gid = next(k for k, x in enumerate(genos) if x is gt) + 1
                    if rname != "dsge":
                        # "the same genotype" is the same GENES (dynamic SGE extends its genotype from the shared source,
                        # so there only the object is the same genotype): equal genes share one id, whichever object and
                        # whichever representation object of this grammar maps them
                        gid = content_ids.setdefault(json.dumps(genes_of(gt), sort_keys=True, default=str), 1000 + len(content_ids))
                        if i % 3 == 2 and fresh_ok:
                            rep_used = fresh_rep()
                    before, db = genes_of(gt), src.count
                    exc, prog = "", None
                    try:
                        prog = rep_used.genotype_to_phenotype(gt)
                    except Exception as e:
                        exc = exc_name(e)
                    finally:
                        rep_used = rep
                    after, da = genes_of(gt), src.count
                    eb, ea = struct_encode([before, after])
                    evs.append({"e": "map", "gid": gid, "rep": rname, "exc": exc,
                                "prog": term_of(prog) if not exc else term_of(0),
                                "draws_before": db, "draws_after": da, "genes_before": eb, "genes_after": ea})
        except Exception:
            continue
    return evs


def main():
    ap = argparse.ArgumentParser()
    ap.add_argument("--out", required=True)
    ap.add_argument("--tier", default="quick")
    ap.add_argument("--seed", type=int, default=0)
    ap.add_argument("--shards", type=int, default=1)
    ap.add_argument("--gen", default="")
    a = ap.parse_args()
    R = rng(a.seed, "c07")
    batch = Batch("C07", {"tier": a.tier, "seed": a.seed, "prop": "C07"})
    nev = 0
    with open(a.gen) as f:
        seqs = json.load(f)["seqs"]
    seqs = [s for s in seqs if any(x[0] == "map" for x in s)]
    quick = a.tier == "quick"
    # ... and the raw-source grammars whose context-dependent refinements can make a production fail while it is built
    specs = [s for s in GR.fixed_specs() if s["id"] in SPEC_IDS] + list(GR.RAW)
    # float refinements much wider than the codon range, next to unrefined bool / int leaves
    specs.append({"id": "widefloat", "start": "Expr", "classes": [
        GR._c("Expr", "", abstract=True),
        GR._c("F", "Expr", [("v", ("ann", ("base", "float"), ("FloatRange", -5000.0, 5000.0))),
                            ("w", ("ann", ("base", "float"), ("FloatRange", 0.0, 100000.0)))]),
        GR._c("B", "Expr", [("b", ("base", "bool")), ("i", ("base", "int"))]),
        GR._c("Op", "Expr", [("l", GR.E), ("r", GR.E)])]})
    k = 0
    for spec in specs:
        b = GR.build_raw(spec) if "source" in spec else GR.build(spec)
        try:
            g = extract_grammar(b.considered, b.start)
            decl = b.oracle()
            d = int(g.get_min_tree_depth()) + 2
            refined = "refined" if "source" in spec or any("IntRange" in repr(c["fields"]) or "VarRange" in repr(c["fields"])
                                       for c in spec["classes"]) else "unrefined"
            reps = [
                ("ge", lambda s: GrammaticalEvolutionRepresentation(g, MaxDepthDecider(s, g, d), gene_length=32)),
                ("ge", lambda s: GrammaticalEvolutionRepresentation(g, PositionIndependentGrowDecider(s, g, d), gene_length=32)),
                ("ge", lambda s: GrammaticalEvolutionRepresentation(g, ProgressivelyTerminalDecider(s, g), gene_length=32)),
                ("sge", lambda s: StructuredGrammaticalEvolutionRepresentation(g, MaxDepthDecider(s, g, d), gene_length=16)),
                ("sge", lambda s: StructuredGrammaticalEvolutionRepresentation(g, FullDecider(s, g, d), gene_length=16)),
                ("dsge", lambda s: DynamicStructuredGrammaticalEvolutionRepresentation(g, d)),
                ("stack", lambda s: StackBasedGGGPRepresentation(g, gene_length=256)),
                # a decider object that was USED directly (by a tree representation sharing it) before the mapping borrows it
                ("ge", lambda s: GrammaticalEvolutionRepresentation(g, used_decider(MaxDepthDecider(s, g, d), g, s), gene_length=32)),
                ("sge", lambda s: StructuredGrammaticalEvolutionRepresentation(g, used_decider(PositionIndependentGrowDecider(s, g, d), g, s),
                                                                               gene_length=16)),
            ]
            # a fixed multi-step scenario per representation: parents are created and mapped, every pair is
            # crossed over, every parent mutated, and each offspring is mapped twice with other draws in between
            fam = [["create", 0], ["create", 0], ["map", 0], ["map", 1], ["map", 2], ["xo", 0], ["xo", 1], ["mutate", 0],
                   ["mutate", 2], ["map", 3], ["map", 4], ["draw", 0], ["map", 5], ["map", 6], ["map", 7], ["map", 8],
                   ["draw", 0], ["map", 3], ["map", 4], ["map", 5], ["map", 6], ["map", 7], ["map", 8], ["map", 0],
                   ["recycle", 0], ["map", 8], ["map", 8], ["recycle", 0], ["map", 8], ["recycle", 0], ["map", 7], ["map", 8],
                   ["map", 2], ["map", 5]]
            for ri, (rname, mk) in enumerate(reps):
                for j in range(2 if quick else 10):
                    evs = run_sequence(R, g, rname, mk, fam, refined, fresh_ok=True)
                    if evs:
                        batch.trace(f"{spec['id']}/{rname}{ri}/family{j}", evs, {"k": "c07", "refined": refined, "seq": fam})
                        nev += len(evs)
            per = 6 if quick else 60
            for ri, (rname, mk) in enumerate(reps):
                for j in range(per):
                    seq = seqs[(k * 7 + j * 13 + ri) % len(seqs)]
                    k += 1
                    evs = run_sequence(R, g, rname, mk, seq, refined, fresh_ok=True)
                    if evs:
                        batch.trace(f"{spec['id']}/{rname}{ri}/{j}", evs, {"k": "c07", "refined": refined, "seq": seq})
                        nev += len(evs)
        finally:
            b.dispose()
    batch.traces = finalize(batch.traces)
    paths = batch.shards(a.out, a.shards)
    write_summary(a.out, {"batches": paths, "traces": len(batch.traces), "events": nev})


if __name__ == "__main__":
    main()
