"""C20 driver: the CSV search log, re-read from disk after every registration (and after SIGKILL)."""
from __future__ import annotations

import argparse
import csv
import io
import json
import os
import signal
import subprocess
import sys
import time

from harness.common import Batch, rng, write_summary
from harness.search_common import (ProbeRep, FitnessProbe, Ids, make_rep, search_grammar, prog_value)

from geneticengine.evaluation.recorder import CSVSearchRecorder, SearchRecorder
from geneticengine.evaluation.sequential import SequentialEvaluator
from geneticengine.evaluation.tracker import SingleObjectiveProgressTracker, MultiObjectiveProgressTracker
from geneticengine.problems import SingleObjectiveProblem, MultiObjectiveProblem
from geneticengine.random.sources import NativeRandomSource
from geneticengine.solutions.individual import Individual


def read_disk(path):
    """bytes on disk through an independent descriptor -> (complete rows as lists of cells, partial fragment)"""
    with open(path, "rb") as f:
        data = f.read().decode("utf-8", "replace")
    cut = data.rfind("\r\n")
    complete, partial = (data[: cut + 2], data[cut + 2:]) if cut >= 0 else ("", data)
    rows = [list(r) for r in csv.reader(io.StringIO(complete, newline=""))]
    return rows, partial[:80]


def tag1(p):
    return f"t{prog_value(p.prog)}"


def tag2(p):
    return f"u{(prog_value(p.prog) * 3) % 7}"


class DiskObserver(SearchRecorder):
    def __init__(self, events, path, expect_fn, sidelog=None):
        self.events = events
        self.path = path
        self.expect_fn = expect_fn
        self.sidelog = sidelog
        self.aggs = []          # maximising aggregates of everything registered so far, in order (the observed history)

    def register(self, tracker, individual, problem, is_best):
        exp = self.expect_fn(individual, problem)
        a0 = float(individual.get_fitness(problem).maximizing_aggregate)
        agg = -10 ** 9 if a0 == float("-inf") else 10 ** 9 if a0 == float("inf") else int(a0)
        prev = list(self.aggs)
        self.aggs.append(agg)
        if self.sidelog is not None:
            # SIGKILL mode: only log what was registered (fsync'd), the parent reads the file afterwards
            self.sidelog.write(json.dumps({"expect": exp, "isbest": bool(is_best)}) + "\n")
            self.sidelog.flush()
            os.fsync(self.sidelog.fileno())
            return
        rows, partial = read_disk(self.path)
        self.events.append({"e": "registered", "isbest": bool(is_best), "expect": exp, "disk": rows, "partial": partial,
                            "agg": agg, "prev": prev})


def build(path, nobj, mode, onlybest, nextra, via, events, sidelog=None, collide=False, inf=False, aslist=False):
    """returns (tracker, cfg); mode: 'default' columns or 'custom' fields.
    collide: the last extra field carries the NAME of a column that is configured already (it replaces that column in place);
    inf: the fitness is infinitely bad (-inf, the problem maximises) for some programs"""
    def comps_of(ph):
        v = prog_value(ph.prog)
        if inf and nobj == 1 and v % 3 != 1:
            return [float("-inf")]
        return [float(v + 10 * k) for k in range(nobj)]  # distinct per component
    if nobj == 1 and aslist:
        # ONE objective declared the multi-objective way (a one-element list), as SimpleGP does for minimize=[..]
        problem = MultiObjectiveProblem([False], lambda ph: comps_of(ph))
    elif nobj == 1:
        problem = SingleObjectiveProblem(lambda ph: comps_of(ph)[0], minimize=False)
    else:
        problem = MultiObjectiveProblem([False] * nobj, lambda ph: comps_of(ph))
    extras = [("Tag", tag1), ("Tag2", tag2)][:nextra]
    dup = ""
    if collide:
        dup = "Prog" if (via != "simplegp" and mode == "custom") else "Phenotype"
        extras = extras[:-1] + [(dup, tag2)] if extras else [(dup, tag2)]
        nextra = len(extras)

    def merged(header, kinds, cells):
        """header / kinds / cells after the in-place override of the colliding column (dict semantics of the configured fields)"""
        if not collide:
            return header, kinds, cells
        keep = [i for i, h in enumerate(header[:-1]) if True]
        pos = header.index(dup)
        h2, k2 = header[:-1], kinds[:-1]
        k2 = k2[:pos] + ["extra"] + k2[pos + 1:]
        if cells is None:
            return h2, k2, None
        c2 = cells[:-1]
        c2 = c2[:pos] + [cells[-1]] + c2[pos + 1:]
        return h2, k2, c2
    if via == "simplegp":
        from geml.simplegp import SimpleGP
        tracker = SimpleGP.build_recorder(None, problem, path, onlybest, False, {n: f for n, f in extras} or None)
        header = ["Execution Time", "Phenotype"] + [f"Fitness{k}" for k in range(nobj)] + [n for n, _ in extras]
        kinds = ["time", "pheno"] + ["fit"] * nobj + ["extra"] * nextra

        def expect(ind, prob):
            fc = ind.get_fitness(prob).fitness_components
            return ["*", str(ind.get_phenotype())] + [str(fc[k]) for k in range(nobj)] + \
                [str(f(ind.get_phenotype())) for _, f in extras]
    else:
        ef = {n: (lambda t, i, p, f=f: f(i.get_phenotype())) for n, f in extras} or None
        if mode == "default":
            rec = CSVSearchRecorder(path, problem, extra_fields=ef, only_record_best_individuals=onlybest)
            header = ["Execution Time", "Phenotype"] + [f"Fitness{k}" for k in range(nobj)] + [n for n, _ in extras]
            kinds = ["time", "pheno"] + ["fit"] * nobj + ["extra"] * nextra

            def expect(ind, prob):
                fc = ind.get_fitness(prob).fitness_components
                return ["*", str(ind.get_phenotype())] + [str(fc[k]) for k in range(nobj)] + \
                    [str(f(ind.get_phenotype())) for _, f in extras]
        elif mode == "empty":
            # an explicitly EMPTY table of fields: the configured columns are the extra fields and nothing else
            rec = CSVSearchRecorder(path, problem, fields={}, extra_fields=ef, only_record_best_individuals=onlybest)
            header = [n for n, _ in extras]
            kinds = ["extra"] * nextra

            def expect(ind, prob):
                return [str(f(ind.get_phenotype())) for _, f in extras]
        else:
            fields = {"Prog": lambda t, i, p: str(i.get_phenotype().prog)}
            for k in range(nobj):
                fields[f"F{k}"] = (lambda t, i, p, k=k: i.get_fitness(p).fitness_components[k])
            rec = CSVSearchRecorder(path, problem, fields=fields, extra_fields=ef, only_record_best_individuals=onlybest)
            header = ["Prog"] + [f"F{k}" for k in range(nobj)] + [n for n, _ in extras]
            kinds = ["other"] + ["fit"] * nobj + ["extra"] * nextra

            def expect(ind, prob):
                fc = ind.get_fitness(prob).fitness_components
                return [str(ind.get_phenotype().prog)] + [str(fc[k]) for k in range(nobj)] + \
                    [str(f(ind.get_phenotype())) for _, f in extras]
        T = SingleObjectiveProgressTracker if nobj == 1 else MultiObjectiveProgressTracker
        tracker = T(problem, SequentialEvaluator(), recorders=[rec])
    header0, kinds0, expect0 = header, kinds, expect
    header, kinds, _ = merged(header0, kinds0, None)

    def expect(ind, prob):
        return merged(header0, kinds0, expect0(ind, prob))[2]
    tracker.recorders.append(DiskObserver(events, path, expect, sidelog))
    cfg = {"k": "csv", "header": header, "kinds": kinds, "onlybest": bool(onlybest), "nobj": nobj, "nextra": nextra,
           "via": via + ("" if via == "simplegp" else "/" + mode)}
    return tracker, cfg


def session(R, workdir, idx, nobj, mode, onlybest, nextra, via, nreg, collide=False, inf=False, aslist=False, prescored=False):
    path = os.path.join(workdir, f"log_{idx}.csv")
    events = []
    try:
        tracker, cfg = build(path, nobj, mode, onlybest, nextra, via, events, collide=collide, inf=inf, aslist=aslist)
    except Exception as e:
        return [{"e": "sessionfail", "exc": type(e).__name__}], \
            {"k": "csv", "header": [], "kinds": [], "onlybest": bool(onlybest), "nobj": nobj, "nextra": nextra, "via": via}
    rows, partial = read_disk(path)
    events.insert(0, {"e": "created", "disk": rows, "partial": partial})
    rs = NativeRandomSource(R.randint(0, 10 ** 6))
    rep = make_rep("tree", rs)
    inds = [Individual(rep.create_genotype(rs), rep) for _ in range(nreg)]
    keep = None
    if prescored:
        # the individuals were scored for ANOTHER problem first (a proxy, other values): the log is about the recorded problem
        keep = MultiObjectiveProblem([False] * nobj, lambda ph: [float(prog_value(ph.prog) * 3 + 500 + k) for k in range(nobj)]) \
            if nobj > 1 else SingleObjectiveProblem(lambda ph: float(prog_value(ph.prog) * 3 + 500), minimize=False)
        SequentialEvaluator().evaluate(keep, inds)
    i = 0
    while i < len(inds):
        k = R.randint(1, 3)
        b = inds[i:i + k]
        if i > 0 and R.random() < 0.3:
            b.append(inds[R.randrange(i)])     # a re-presented individual is registered again
        try:
            tracker.evaluate(b)
        except Exception as e:      # registering an individual with a well-formed recorder must not raise
            events.append({"e": "sessionfail", "exc": type(e).__name__})
            break
        i += k
    os.remove(path)
    return events, cfg


def child_main(argv):
    """run inside a subprocess that the parent SIGKILLs: register individuals forever, slowly"""
    path, side, nobj, mode, onlybest, nextra, via, seed = argv
    import random
    R = random.Random(int(seed))
    sidelog = open(side, "w")
    tracker, cfg = build(path, int(nobj), mode, onlybest == "1", int(nextra), via, [], sidelog)
    sidelog.write(json.dumps({"cfg": cfg}) + "\n")
    sidelog.flush()
    os.fsync(sidelog.fileno())
    rs = NativeRandomSource(int(seed))
    rep = make_rep("tree", rs)
    while True:
        tracker.evaluate([Individual(rep.create_genotype(rs), rep)])
        time.sleep(0.002)


def kill_run(R, workdir, idx, nobj, mode, onlybest, nextra, via):
    path = os.path.join(workdir, f"kill_{idx}.csv")
    side = os.path.join(workdir, f"kill_{idx}.side")
    env = dict(os.environ)
    p = subprocess.Popen([sys.executable, "-B", "-m", "harness.drv_c20", "--child", path, side, str(nobj), mode,
                          "1" if onlybest else "0", str(nextra), via, str(R.randint(0, 10 ** 6))], env=env)
    # wait until the child has started registering (interpreter start-up can be slow on a loaded machine),
    # then let it run for a random while and kill it
    t0 = time.time()
    while time.time() - t0 < 30:
        if os.path.exists(side) and os.path.getsize(side) > 0:
            break
        if p.poll() is not None:
            break
        time.sleep(0.02)
    time.sleep(0.05 + R.random() * 0.4)
    p.send_signal(signal.SIGKILL)
    p.wait()
    rows, partial = read_disk(path) if os.path.exists(path) else ([], "")
    cfg, regs = None, []
    if not os.path.exists(side):
        return None, None
    with open(side) as f:
        for line in f:
            try:
                d = json.loads(line)
            except ValueError:
                continue  # the side log itself may end in a torn line
            if "cfg" in d:
                cfg = d["cfg"]
            else:
                regs.append(d)
    for fn in (path, side):
        if os.path.exists(fn):
            os.remove(fn)
    if cfg is None:
        return None, None
    recorded = [r["expect"] for r in regs if (not cfg["onlybest"]) or r["isbest"]]
    # the registration in flight when the kill arrived may or may not have reached the disk: `all` includes one
    # unconstrained row beyond what the child logged
    width = len(cfg["header"])
    ev = {"e": "killed", "disk": rows, "partial": partial, "completed": recorded,
          "all": recorded + [["*"] * width]}
    return [ev], cfg


def main():
    if len(sys.argv) > 1 and sys.argv[1] == "--child":
        child_main(sys.argv[2:])
        return
    ap = argparse.ArgumentParser()
    ap.add_argument("--out", required=True)
    ap.add_argument("--tier", default="quick")
    ap.add_argument("--seed", type=int, default=0)
    ap.add_argument("--shards", type=int, default=1)
    a = ap.parse_args()
    R = rng(a.seed, "c20")
    batch = Batch("C20", {"tier": a.tier, "seed": a.seed, "prop": "C20"})
    nev = 0
    quick = a.tier == "quick"
    work = os.path.join(a.out, "files")
    os.makedirs(work, exist_ok=True)
    idx = 0
    reps = 1 if quick else 8
    for _ in range(reps):
        for nobj in (1, 2, 3):
            for via, mode in (("direct", "default"), ("direct", "custom"), ("simplegp", "default")):
                for onlybest in (True, False):
                    for nextra in (0, 1, 2):
                        ev, cfg = session(R, work, idx, nobj, mode, onlybest, nextra, via, R.randint(3, 14))
                        batch.trace(f"csv/{idx}/{cfg['via']}/{nobj}obj/{nextra}extra/{'best' if onlybest else 'all'}", ev, cfg)
                        nev += len(ev)
                        idx += 1
    # an extra field named like a configured column; fitness that is infinitely bad for most programs (first rows!)
    for via, mode in (("direct", "default"), ("direct", "custom"), ("simplegp", "default")):
        for onlybest in (True, False):
            for (nextra, collide, inf) in ((1, True, False), (2, True, False), (0, False, True), (1, True, True)):
                ev, cfg = session(R, work, idx, 1, mode, onlybest, nextra, via, R.randint(4, 12), collide=collide, inf=inf)
                batch.trace(f"csv/{idx}/{cfg['via']}/special/{nextra}{int(collide)}{int(inf)}/{'best' if onlybest else 'all'}", ev, cfg)
                nev += len(ev)
                idx += 1
    for via, mode in (("direct", "default"), ("simplegp", "default")):
        for onlybest in (True, False):
            for (nobj, aslist, prescored) in ((1, True, False), (1, False, True), (2, False, True), (1, True, True)):
                ev, cfg = session(R, work, idx, nobj, mode, onlybest, 1, via, R.randint(5, 12), aslist=aslist, prescored=prescored)
                batch.trace(f"csv/{idx}/{cfg['via']}/special2/{nobj}{int(aslist)}{int(prescored)}/{'best' if onlybest else 'all'}", ev, cfg)
                nev += len(ev)
                idx += 1
    for nobj in (1, 2):
        for onlybest in (True, False):
            for nextra in (1, 2):
                ev, cfg = session(R, work, idx, nobj, "empty", onlybest, nextra, "direct", R.randint(4, 10))
                batch.trace(f"csv/{idx}/{cfg['via']}/no-fields/{nobj}obj/{nextra}extra/{'best' if onlybest else 'all'}", ev, cfg)
                nev += len(ev)
                idx += 1
    nkill = 6 if quick else 200
    for k in range(nkill):
        ev, cfg = kill_run(R, work, k, R.choice([1, 2]), R.choice(["default", "custom"]), R.random() < 0.5,
                           R.choice([0, 1]), "direct")
        if ev:
            batch.trace(f"kill/{k}", ev, cfg)
            nev += len(ev)
    try:
        os.rmdir(work)
    except OSError:
        pass
    paths = batch.shards(a.out, a.shards)
    write_summary(a.out, {"batches": paths, "traces": len(batch.traces), "events": nev})


if __name__ == "__main__":
    main()
