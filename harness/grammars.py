"""Grammar families for the conformance drivers.

A grammar *spec* is plain data (classes, parents, abstract flags, fields as form expressions); `build`
turns it into Python source text like a user would write (dataclasses, @abstract / ABC, Annotated
refinements), executes it in a fresh module and returns the classes.  `gen_spec` samples the bounded
family; FIXED holds regression grammars shaped after the repository's tests and examples.

Form expressions:
  ("base", "int"|"float"|"str"|"bool")     ("sym", ClassName)
  ("list", f)   ("tuple", [f, ...])   ("union", [f, ...])
  ("ann", f, (MH, args...))  with MH in IntRange, IntList, FloatRange, FloatList, VarRange, ListSize, ListSizeNoOps,
                                   StrSize, Interval, WeightedStr, DepIntFrom(dep, K), DepListSizeEq(dep)
"""
from __future__ import annotations

import itertools
import sys
import types

_counter = itertools.count()

HEADER = '''# (no postponed annotations: field types are evaluated once, like in the repository tests)
from abc import ABC
from dataclasses import dataclass, field
from typing import Annotated, Union
import numpy as np
from geneticengine.grammar.decorators import abstract, weight
from geneticengine.grammar.metahandlers.ints import IntRange, IntList, IntervalRange
from geneticengine.grammar.metahandlers.floats import FloatRange, FloatList
from geneticengine.grammar.metahandlers.vars import VarRange
from geneticengine.grammar.metahandlers.lists import ListSizeBetween, ListSizeBetweenWithoutListOperations
from geneticengine.grammar.metahandlers.strings import StringSizeBetween, WeightedStringHandler
from geneticengine.grammar.metahandlers.dependent import Dependent

def _tag(_f, **kw):
    _f.verif_tag = kw
    return _f
'''


def mh_src(mh):
    k = mh[0]
    if k == "IntRange":
        return f"IntRange({mh[1]}, {mh[2]})"
    if k == "IntList":
        return f"IntList({list(mh[1])!r})"
    if k == "FloatRange":
        return f"FloatRange({float(mh[1])!r}, {float(mh[2])!r})"
    if k == "FloatRangeInt":        # bounds written as int literals, as users often do
        return f"FloatRange({int(mh[1])}, {int(mh[2])})"
    if k == "FloatList":
        return f"FloatList({[float(x) for x in mh[1]]!r})"
    if k == "VarRange":
        return f"VarRange({list(mh[1])!r})"
    if k == "ListSize":
        return f"ListSizeBetween({mh[1]}, {mh[2]})"
    if k == "ListSizeNoOps":
        return f"ListSizeBetweenWithoutListOperations({mh[1]}, {mh[2]})"
    if k == "StrSize":
        return f"StringSizeBetween({mh[1]}, {mh[2]}, {mh[3]!r})"
    if k == "Interval":
        return f"IntervalRange({mh[1]}, {mh[2]}, {mh[3]})"
    if k == "WeightedStr":
        return f"WeightedStringHandler(np.array({[list(r) for r in mh[1]]!r}), {list(mh[2])!r})"
    if k == "DepIntFrom":
        return f"Dependent({mh[1]!r}, _tag(lambda {mh[1]}: IntRange({mh[1]}, {mh[2]}), fn='IntRangeFrom', K={mh[2]}))"
    if k == "DepWindow":     # two dependencies, listed in an order different from their declaration order
        a, b = mh[1].split(",")
        return (f"Dependent({mh[1]!r}, _tag(lambda {a}, {b}: IntRange({b}, {b} + {a}), fn='IntRangeWindow', K=0))")
    if k == "DepListSizeEq":
        return f"Dependent({mh[1]!r}, _tag(lambda {mh[1]}: ListSizeBetween({mh[1]}, {mh[1]}), fn='ListSizeEq', K=0))"
    raise ValueError(mh)


def form_src(f):
    k = f[0]
    if k == "base":
        return f[1]
    if k == "sym":
        return f[1]
    if k == "list":
        return f"list[{form_src(f[1])}]"
    if k == "tuple":
        return "tuple[" + ", ".join(form_src(x) for x in f[1]) + "]"
    if k == "union":
        return "Union[" + ", ".join(form_src(x) for x in f[1]) + "]"
    if k == "ann":
        return f"Annotated[{form_src(f[1])}, {mh_src(f[2])}]"
    raise ValueError(f)


def spec_source(spec):
    # "postponed": the module is written with `from __future__ import annotations` (field types are strings)
    lines = [("from __future__ import annotations\n" if spec.get("postponed") else "") + HEADER]
    for c in spec["classes"]:
        w = c.get("weight")
        if c["abstract"]:
            style = c.get("style", "abc")
            below = c.get("weight_below_abstract", False)      # decorator order: @abstract above @weight, or the reverse
            if w is not None and not (below and (style == "decorator" or c["parent"])):
                lines.append(f"@weight({w!r})")
            if style == "decorator" or c["parent"]:
                lines.append("@abstract")
                if w is not None and below:
                    lines.append(f"@weight({w!r})")
                lines.append(f"class {c['name']}({c['parent']}):" if c["parent"] else f"class {c['name']}:")
            else:
                lines.append(f"class {c['name']}(ABC):")
            lines.append("    pass")
        else:
            if w is not None:
                lines.append(f"@weight({w!r})")
            lines.append("@dataclass(unsafe_hash=True)" if c.get("hashable") else "@dataclass")
            lines.append(f"class {c['name']}({c['parent']}):" if c["parent"] else f"class {c['name']}:")
            if not c["fields"]:
                lines.append("    pass")
            for n, f in c["fields"]:
                lines.append(f"    {n}: {form_src(f)}")
            for n, f in c.get("noninit", []):       # dataclass fields that are NOT constructor parameters: not part of the grammar
                lines.append(f"    {n}: {form_src(f)} = field(init=False, default=None)")
        lines.append("")
    return "\n".join(lines)


class Built:
    def __init__(self, spec, module, source):
        self.spec = spec
        self.module = module
        self.source = source
        self.classes = {c["name"]: getattr(module, c["name"]) for c in spec["classes"]}
        self.start = self.classes[spec["start"]]
        start_abs = any(c["name"] == spec["start"] and c["abstract"] for c in spec["classes"])
        self.considered = [self.classes[c["name"]] for c in spec["classes"]
                           if not (start_abs and c["name"] == spec["start"])]

    raw = False

    def dispose(self):
        sys.modules.pop(self.module.__name__, None)

    def oracle(self):
        """the typing oracle: field types read from the classes with typing.get_type_hints; abstract flags and weights
        as WRITTEN in the specification the classes were generated from (the decorators keep them in a per-class dict
        that the library reads too)"""
        from harness.proj import declared_grammar
        d = declared_grammar(list(self.classes.values()), self.start)
        return d if self.raw else declared_from_spec(d, self.spec)


def build(spec) -> Built:
    src = spec_source(spec)
    name = f"verifg_{next(_counter)}"
    mod = types.ModuleType(name)
    sys.modules[name] = mod
    exec(compile(src, f"<{name}>", "exec", dont_inherit=True), mod.__dict__)
    return Built(spec, mod, src)


# ------------------------------------------------------------------------------------------------
# the generated family

def _leaf_form(R, feats):
    opts = []
    if "int" in feats:
        opts += [("base", "int")]
    if "float" in feats:
        opts += [("base", "float")]
    if "bool" in feats:
        opts += [("base", "bool")]
    if "str" in feats:
        opts += [("base", "str")]
    if "intrange" in feats:
        lo = R.randint(-2, 2)
        opts += [("ann", ("base", "int"), ("IntRange", lo, lo + R.randint(0, 3)))] * 2
    if "intlist" in feats:
        opts += [("ann", ("base", "int"), ("IntList", R.sample(range(-5, 9), R.randint(1, 3))))]
    if "floatrange" in feats:
        lo = R.choice([-1.5, 0.0, 0.25, 2.0])
        opts += [("ann", ("base", "float"), ("FloatRange", lo, lo + R.choice([0.0, 0.5, 3.0])))]
    if "floatlist" in feats:
        opts += [("ann", ("base", "float"), ("FloatList", R.sample([0.5, 1.25, -2.0, 3.0], R.randint(1, 3))))]
    if "varrange" in feats:
        opts += [("ann", ("base", "str"), ("VarRange", R.sample(["x", "y", "z", "w"], R.randint(1, 3))))]
    if "strsize" in feats:
        lo = R.randint(0, 2)
        opts += [("ann", ("base", "str"), ("StrSize", lo, lo + R.randint(0, 2), R.choice(["a", "ab", "xyz"])))]
    if "interval" in feats:
        mn = R.randint(0, 2)
        mx = mn + R.randint(1, 3)
        opts += [("ann", ("tuple", [("base", "int"), ("base", "int")]), ("Interval", mn, mx, mx + R.randint(1, 4)))]
    if "weightedstr" in feats:
        opts += [("ann", ("base", "str"), ("WeightedStr", [[0.5, 0.5, 0.0], [0.0, 0.25, 0.75]][: R.randint(1, 2)], ["a", "c", "g"]))]
    if "nested" in feats:
        opts += [("ann", ("list", ("list", ("ann", ("base", "int"), ("IntRange", 0, 2)))), ("ListSize", 2, 3)),
                 ("ann", ("list", ("ann", ("base", "int"), ("IntRange", 3, 5))), ("ListSize", 1, 2))]
    if not opts:
        opts = [("ann", ("base", "int"), ("IntRange", 0, 1))]
    return R.choice(opts)


def _rec_form(R, feats, abstracts, concretes):
    """a form that mentions grammar symbols"""
    tgt = ("sym", R.choice(abstracts))
    kinds = ["sym", "sym"]
    if "sizedlist" in feats:
        kinds += ["sizedlist", "sizedlist"]
    if "plainlist" in feats:
        kinds += ["plainlist"]
    if "union" in feats:
        kinds += ["union"]
    if "tuple" in feats:
        kinds += ["tuple"]
    if "concrete_ref" in feats and concretes:
        kinds += ["concrete"]
    if "nested" in feats:
        kinds += ["list_of_union", "list_of_tuple", "list_of_list", "list_of_refined"]
    k = R.choice(kinds)
    if k == "sym":
        return tgt
    if k == "concrete":
        return ("sym", R.choice(concretes))
    if k == "sizedlist":
        lo = R.randint(0, 1)
        mh = "ListSize" if R.random() < 0.7 else "ListSizeNoOps"
        return ("ann", ("list", tgt), (mh, lo, lo + R.randint(0, 2)))
    if k == "plainlist":
        return ("list", tgt)
    if k == "list_of_union":
        alt = ("sym", R.choice(concretes)) if concretes else ("ann", ("base", "int"), ("IntRange", 0, 1))
        inner = ("union", [tgt, alt]) if repr(alt) != repr(tgt) else tgt
        return ("ann", ("list", inner), ("ListSize", 1, 2)) if R.random() < 0.6 else ("list", inner)
    if k == "list_of_tuple":
        return ("ann", ("list", ("tuple", [tgt, ("ann", ("base", "int"), ("IntRange", 0, 1))])), ("ListSize", 1, 2))
    if k == "list_of_list":
        lo = R.randint(1, 2)
        return ("ann", ("list", ("ann", ("list", tgt), ("ListSize", 1, 1))), ("ListSize", lo, lo + R.randint(0, 1)))
    if k == "list_of_refined":
        lo = R.randint(0, 2)
        return ("ann", ("list", ("ann", ("base", "int"), ("IntRange", lo, lo + 2))), ("ListSize", 1, 3))
    if k == "union":
        alts = [tgt]
        if concretes and R.random() < 0.5:
            alts.append(("sym", R.choice(concretes)))
        else:
            alts.append(_leaf_form(R, feats & {"intrange", "varrange", "int", "bool"} or {"intrange"}))
        if R.random() < 0.3 and len(abstracts) > 1:
            alts.append(("sym", R.choice(abstracts)))
        # a Union must not repeat a member (typing collapses duplicates)
        seen, out = set(), []
        for a in alts:
            if repr(a) not in seen:
                seen.add(repr(a))
                out.append(a)
        return ("union", out) if len(out) > 1 else out[0]
    if k == "tuple":
        return ("tuple", [tgt, _leaf_form(R, feats)] if R.random() < 0.5 else [_leaf_form(R, feats), tgt])
    raise AssertionError(k)


ALL_FEATS = {"nested", "int", "float", "bool", "str", "intrange", "intlist", "floatrange", "floatlist", "varrange", "strsize",
             "interval", "weightedstr", "sizedlist", "plainlist", "union", "tuple", "concrete_ref", "nested_abstract",
             "unreachable", "dependent", "weights"}
FINITE_FEATS = {"intrange", "intlist", "varrange", "sizedlist", "union", "nested_abstract", "concrete_ref"}


def gen_spec(R, feats, gid="g"):
    """one member of the bounded family: <= 3 abstract types, <= 6 concrete classes, <= 3 fields each"""
    feats = set(feats)
    nabs = R.randint(1, 3)
    abstracts = [f"A{i}" for i in range(nabs)]
    classes = []
    parents = {}
    for i, a in enumerate(abstracts):
        par = ""
        if i > 0 and "nested_abstract" in feats and R.random() < 0.5:
            par = R.choice(abstracts[:i])
        parents[a] = par
        classes.append({"name": a, "parent": par, "abstract": True, "fields": [],
                        "style": R.choice(["abc", "decorator"])})
    concretes = []
    # every abstract type gets a leaf production (keeps the grammar productive)
    n = 0
    for a in abstracts:
        nf = R.randint(0, 2)
        fields = [(f"f{j}", _leaf_form(R, feats)) for j in range(nf)]
        if "dependent" in feats and nf >= 1 and R.random() < 0.5:
            fields = [("f0", ("ann", ("base", "int"), ("IntRange", 0, 3))),
                      ("f1", ("ann", ("base", "int"), ("DepIntFrom", "f0", 4)))]
        classes.append({"name": f"L{n}", "parent": a, "abstract": False, "fields": fields})
        concretes.append(f"L{n}")
        n += 1
    nrec = R.randint(1, 4)
    for k in range(nrec):
        a = R.choice(abstracts)
        nf = R.randint(1, 3)
        fields = []
        for j in range(nf):
            if j == 0 or R.random() < 0.6:
                fields.append((f"f{j}", _rec_form(R, feats, abstracts, concretes)))
            else:
                fields.append((f"f{j}", _leaf_form(R, feats)))
        if "dependent" in feats and "sizedlist" in feats and R.random() < 0.3:
            fields = [("f0", ("ann", ("base", "int"), ("IntRange", 0, 2))),
                      ("f1", ("ann", ("list", ("sym", R.choice(abstracts))), ("DepListSizeEq", "f0")))]
        classes.append({"name": f"N{k}", "parent": a, "abstract": False, "fields": fields})
        concretes.append(f"N{k}")
    if "unreachable" in feats and R.random() < 0.5:
        classes.append({"name": "U0", "parent": "", "abstract": True, "fields": [], "style": "abc"})
        classes.append({"name": "U1", "parent": "U0", "abstract": False,
                        "fields": [("f0", ("base", "int"))]})
    if "weights" in feats:
        for c in classes:
            if c["parent"] and R.random() < 0.6:
                c["weight"] = R.choice([0, 1, 2, 6, 0.5, 0.1, 0.25, 0.3])
                if c["abstract"] and R.random() < 0.5:
                    c["weight_below_abstract"] = True
        # never all-zero under one non-terminal (normalisation would divide by zero)
        for a in abstracts:
            ps = [c for c in classes if c["parent"] == a]
            if ps and all(c.get("weight", 1) == 0 for c in ps):
                ps[0]["weight"] = 1
    return {"id": gid, "start": "A0", "classes": classes, "feats": sorted(feats)}


# ------------------------------------------------------------------------------------------------
# fixed regression grammars (shaped after tests/ and examples/)

def _c(name, parent, fields=(), abstract=False, **kw):
    d = {"name": name, "parent": parent, "abstract": abstract, "fields": list(fields)}
    d.update(kw)
    return d


I03 = ("ann", ("base", "int"), ("IntRange", 0, 3))
I01 = ("ann", ("base", "int"), ("IntRange", 0, 1))
E = ("sym", "Expr")

FIXED = [
    # arithmetic: Expr -> Lit | Plus | Neg
    {"id": "arith", "start": "Expr", "classes": [
        _c("Expr", "", abstract=True), _c("Lit", "Expr", [("v", I01)]), _c("Plus", "Expr", [("l", E), ("r", E)]),
        _c("Neg", "Expr", [("e", E)])]},
    # sized list of abstract
    {"id": "sizedlist", "start": "Expr", "classes": [
        _c("Expr", "", abstract=True), _c("Lit", "Expr", [("v", I01)]),
        _c("Block", "Expr", [("xs", ("ann", ("list", E), ("ListSize", 1, 2)))])]},
    # plain (un-annotated) list of abstract
    {"id": "plainlist", "start": "Expr", "classes": [
        _c("Expr", "", abstract=True), _c("Lit", "Expr", [("v", I01)]),
        _c("Many", "Expr", [("xs", ("list", E))])]},
    # nested abstract layers
    {"id": "nested", "start": "Root", "classes": [
        _c("Root", "", abstract=True), _c("Mid", "Root", abstract=True), _c("Leaf", "Root", []),
        _c("Inner", "Mid", [("r", ("sym", "Root"))]), _c("MidLeaf", "Mid", [("v", I03)])]},
    # union and tuple fields
    {"id": "union", "start": "Expr", "classes": [
        _c("Expr", "", abstract=True), _c("Lit", "Expr", [("v", I01)]),
        _c("Wrap", "Expr", [("u", ("union", [E, I03]))])]},
    {"id": "tuple", "start": "Expr", "classes": [
        _c("Expr", "", abstract=True), _c("Lit", "Expr", [("v", I01)]),
        _c("Pair", "Expr", [("p", ("tuple", [E, I03]))])]},
    # base types incl. bool / unrefined
    {"id": "bases", "start": "Expr", "classes": [
        _c("Expr", "", abstract=True), _c("B", "Expr", [("b", ("base", "bool"))]),
        _c("I", "Expr", [("i", ("base", "int")), ("f", ("base", "float"))]),
        _c("S", "Expr", [("s", ("ann", ("base", "str"), ("VarRange", ["x", "y"]))), ("t", ("base", "str"))]),   # t: a bare str
        _c("Op", "Expr", [("l", E), ("r", E)])]},
    # dependent refinement (tests/representations/dependent_types_test.py)
    {"id": "dependent", "start": "SimplePair", "classes": [
        _c("SimplePair", "", [("a", I03), ("b", ("ann", ("base", "int"), ("DepIntFrom", "a", 4))),
                              ("c", ("base", "int"))])]},
    # mutual recursion through two abstract types
    {"id": "mutual", "start": "A", "classes": [
        _c("A", "", abstract=True), _c("B", "", abstract=True), _c("A0", "A", [("v", I01)]),
        _c("AB", "A", [("b", ("sym", "B"))]), _c("B0", "B", []), _c("BA", "B", [("a", ("sym", "A"))])]},
    # every string / float / interval refinement
    {"id": "refined", "start": "R", "classes": [
        _c("R", "", abstract=True),
        _c("R1", "R", [("s", ("ann", ("base", "str"), ("StrSize", 1, 3, "ab"))),
                       ("f", ("ann", ("base", "float"), ("FloatRange", -1.5, 2.0)))]),
        _c("R2", "R", [("i", ("ann", ("base", "int"), ("IntList", [2, 3, 5]))),
                       ("g", ("ann", ("base", "float"), ("FloatList", [0.5, 1.25])))]),
        _c("R3", "R", [("w", ("ann", ("base", "str"), ("WeightedStr", [[0.5, 0.5, 0.0], [0.0, 0.25, 0.75]], ["a", "c", "g"]))),
                       ("iv", ("ann", ("tuple", [("base", "int"), ("base", "int")]), ("Interval", 1, 3, 6)))]),
        _c("R4", "R", [("xs", ("ann", ("list", I03), ("ListSize", 0, 2))), ("r", ("sym", "R"))]),
        _c("R5", "R", [("p", ("ann", ("base", "float"), ("FloatRangeInt", 0, 1))),
                       ("q", ("ann", ("base", "float"), ("FloatRangeInt", -5, 5)))])]},
]


FIXED += [
    # a dependent refinement after a concrete-typed sibling that has a field of the same name
    {"id": "depnested", "start": "Span", "classes": [
        _c("Window", "", [("lo", ("ann", ("base", "int"), ("IntRange", 0, 3)))]),
        _c("Span", "", [("lo", ("ann", ("base", "int"), ("IntRange", 5, 9))), ("inner", ("sym", "Window")),
                        ("hi", ("ann", ("base", "int"), ("DepIntFrom", "lo", 9)))])]},
    # ... the nested production's field of the same name has ANOTHER base type (a float must never reach the int field)
    {"id": "depnestedf", "start": "Loop", "classes": [
        _c("Band", "", [("lo", ("ann", ("base", "float"), ("FloatRange", 0.25, 2.75)))]),
        _c("Loop", "", [("lo", ("ann", ("base", "int"), ("IntRange", 5, 9))), ("band", ("sym", "Band")),
                        ("hi", ("ann", ("base", "int"), ("DepIntFrom", "lo", 9)))])]},
    # a dependent refinement with two dependencies listed in another order than they are declared
    {"id": "depwindow", "start": "Window", "classes": [
        _c("Window", "", [("offset", ("ann", ("base", "int"), ("IntRange", 100, 109))),
                          ("scale", ("ann", ("base", "int"), ("IntRange", 1, 3))),
                          ("pos", ("ann", ("base", "int"), ("DepWindow", "scale,offset")))])]},
    # concrete start symbol with abstract-typed fields (mutation restarts from the root's stored context)
    {"id": "concstart", "start": "Prog", "classes": [
        _c("Stmt", "", abstract=True),
        _c("Prog", "", [("a", ("sym", "Stmt")), ("b", ("sym", "Stmt"))]),
        _c("Skip", "Stmt", [("v", I01)]), _c("Not", "Stmt", [("s", ("sym", "Stmt"))]),
        _c("Blk", "Stmt", [("p", ("sym", "Prog"))])]},
    # the only recursive route goes through the SECOND member of a union of a plain record and the abstract type
    {"id": "unionrec", "start": "Root", "classes": [
        _c("Root", "", abstract=True), _c("Atom", "", [("n", ("ann", ("base", "str"), ("VarRange", ["x", "y"])))]),
        _c("Leaf", "Root", [("v", I01)]),
        _c("Wrap", "Root", [("inner", ("union", [("sym", "Atom"), ("sym", "Root")]))])]},
    # a size-refined list whose ELEMENTS are refined too
    {"id": "sizedrefined", "start": "S", "classes": [
        _c("S", "", abstract=True),
        _c("Vec", "S", [("xs", ("ann", ("list", ("ann", ("base", "int"), ("IntRange", -1, 1))), ("ListSize", 1, 2)))]),
        _c("Two", "S", [("a", ("sym", "S"))])]},
    # a supplied but unreachable abstract type whose only production is recursive (no base case): unproductive
    {"id": "deadrec", "start": "Expr", "classes": [
        _c("Node", "", abstract=True), _c("Expr", "Node", abstract=True, style="decorator"),
        _c("Stmt", "Node", abstract=True, style="decorator"),
        _c("Lit", "Expr", [("v", I01)]), _c("Add", "Expr", [("l", E), ("r", E)]),
        _c("Block", "Stmt", [("body", ("sym", "Stmt"))])]},
    # float refinements whose bounds are written as INT literals (the value must still be a float)
    {"id": "floatint", "start": "F", "classes": [
        _c("F", "", abstract=True),
        _c("FI", "F", [("x", ("ann", ("base", "float"), ("FloatRangeInt", 0, 5))), ("y", ("ann", ("base", "float"), ("FloatRangeInt", -2, 2)))]),
        _c("FR", "F", [("z", ("ann", ("base", "float"), ("FloatRangeInt", 1, 1))), ("r", ("sym", "F"))])]},
    # dataclass fields that are not constructor parameters (bookkeeping attributes) mention deeper / recursive / otherwise
    # unmentioned symbols: they are no children of the production
    {"id": "noninit", "start": "Expr", "classes": [
        _c("Expr", "", abstract=True), _c("Label", "", [("t", I01)]),
        _c("Lit", "Expr", [("v", I01)]),
        _c("Tagged", "Expr", [("v", I01)], noninit=[("cache", ("sym", "Expr")), ("label", ("sym", "Label"))]),
        _c("Neg", "Expr", [("e", E)])]},
    # weighted productions whose weights do not add up to a power of two
    {"id": "weighted", "start": "Expr", "classes": [
        _c("Expr", "", abstract=True), _c("Lit", "Expr", [("v", I01)], weight=3),
        _c("Neg", "Expr", [("e", E)], weight=2), _c("Plus", "Expr", [("l", E), ("r", E)], weight=1)]},
    # a union one of whose members is a composite (list) type over the recursive symbol
    {"id": "unionlist", "start": "Expr", "classes": [
        _c("Expr", "", abstract=True), _c("Lit", "Expr", [("v", I01)]),
        _c("Grp", "Expr", [("u", ("union", [("sym", "Lit"), ("ann", ("list", E), ("ListSize", 1, 2))]))])]},
    # weights under TWO non-terminals
    {"id": "weighted2", "start": "Expr", "classes": [
        _c("Expr", "", abstract=True), _c("Op", "", abstract=True),
        _c("Lit", "Expr", [("v", I01)], weight=3), _c("Un", "Expr", [("o", ("sym", "Op")), ("e", E)], weight=2),
        _c("Inc", "Op", [], weight=2), _c("Dec", "Op", [], weight=1), _c("Sq", "Op", [], weight=4)]},
    # concrete start symbol that is recursive only indirectly, through a sized list of an abstract type
    {"id": "blocks", "start": "Block", "classes": [
        _c("Stmt", "", abstract=True),
        _c("Block", "", [("stmts", ("ann", ("list", ("sym", "Stmt")), ("ListSize", 1, 2)))]),
        _c("Skip", "Stmt", [("v", I01)]),
        _c("If", "Stmt", [("then", ("sym", "Block")), ("els", ("sym", "Block"))])]},
    # the shallowest derivation of the start symbol goes through a Union whose members differ in depth
    {"id": "unionstart", "start": "S", "classes": [
        _c("S", "", abstract=True), _c("Lit", "", [("v", I01)]), _c("Deep", "", [("l", ("sym", "S"))]),
        _c("A", "S", [("u", ("union", [("sym", "Lit"), ("sym", "Deep")]))])]},
    # three abstract layers between a field's declared type and the concrete class of its value
    {"id": "deepabs", "start": "Node", "classes": [
        _c("Node", "", abstract=True), _c("Expr", "Node", abstract=True, style="decorator"),
        _c("Lit", "Expr", abstract=True, style="decorator"),
        _c("One", "Lit", []), _c("IntLit", "Lit", [("v", I03)]), _c("Neg", "Expr", [("e", ("sym", "Expr"))]),
        _c("Pair", "Node", [("a", ("sym", "Node")), ("b", ("sym", "Node"))])]},
    # a recursive production whose own minimum depth is 3 (a non-recursive tail chain below it)
    {"id": "tailchain", "start": "S", "classes": [
        _c("S", "", abstract=True), _c("T1", "", abstract=True), _c("T2", "", abstract=True),
        _c("SLeaf", "S", []), _c("Leaf2", "T2", [("v", I01)]), _c("MkT1", "T1", [("t", ("sym", "T2"))]),
        _c("Wrap", "S", [("a", ("sym", "S")), ("tail", ("sym", "T1"))])]},
    # nested generics: list of union, list of tuple, list of list
    {"id": "nestedgen", "start": "Expr", "classes": [
        _c("Expr", "", abstract=True), _c("Lit", "Expr", [("v", I01)]),
        _c("LU", "Expr", [("xs", ("ann", ("list", ("union", [E, ("sym", "Lit")])), ("ListSize", 1, 2)))]),
        _c("LT", "Expr", [("xs", ("ann", ("list", ("tuple", [E, I01])), ("ListSize", 1, 1)))]),
        _c("LL", "Expr", [("xs", ("ann", ("list", ("list", I03)), ("ListSize", 2, 3)))])]},
]


# grammars declared with postponed (string) annotations; only the tree and stack representations are run on them (the
# gene-keyed representations key their genes by repr(type), which is not stable for re-evaluated string annotations)
POSTPONED = [
    {"id": "p-window", "start": "Shape", "postponed": True, "classes": [
        _c("Shape", "", abstract=True),
        _c("Window", "Shape", [("lo", ("ann", ("base", "int"), ("IntRange", 0, 9))),
                               ("hi", ("ann", ("base", "int"), ("IntRange", 1000, 9000)))]),
        _c("Pair", "Shape", [("a", ("sym", "Shape")), ("b", ("sym", "Shape"))]),
        _c("Buckets", "Shape", [("few", ("ann", ("list", ("base", "int")), ("ListSize", 0, 1))),
                                ("many", ("ann", ("list", ("base", "int")), ("ListSize", 2, 4)))])]},
    {"id": "p-refined", "start": "R", "postponed": True, "classes": [
        _c("R", "", abstract=True),
        _c("R1", "R", [("i", ("ann", ("base", "int"), ("IntRange", -3, 3))),
                       ("f", ("ann", ("base", "float"), ("FloatRange", -1.5, 2.0)))]),
        _c("R2", "R", [("i", ("ann", ("base", "int"), ("IntList", [2, 3, 5]))), ("r", ("sym", "R"))])]},
]


# only for the depth-limited deciders (C03): the one terminal production carries weight ZERO.  Weights steer the
# weight-aware choosers; the depth analysis and the depth-limited deciders count such a production like any other.
C03_EXTRA = [
    {"id": "zeroterm", "start": "Expr", "classes": [
        _c("Expr", "", abstract=True), _c("Lit", "Expr", [("v", I01)], weight=0),
        _c("Neg", "Expr", [("e", E)], weight=2), _c("Plus", "Expr", [("l", E), ("r", E)], weight=1)]},
    {"id": "zeromid", "start": "Expr", "classes": [
        _c("Expr", "", abstract=True), _c("Lit", "Expr", [("v", I01)], weight=1),
        _c("Mid", "Expr", [("a", ("sym", "Lit"))], weight=0), _c("Neg", "Expr", [("e", E)], weight=3)]},
]


# only for C10: every production of one non-terminal carries weight zero
C10_EXTRA = [
    {"id": "allzero", "start": "Expr", "classes": [
        _c("Expr", "", abstract=True), _c("F", "", abstract=True),
        _c("Lit", "Expr", [("v", I01)]), _c("Flag", "Expr", [("f", ("sym", "F")), ("e", E)]),
        _c("FA", "F", [], weight=0), _c("FB", "F", [], weight=0)]},
]
# linear recursion: a limit of a thousand levels is affordable and must be usable
CHAIN = {"id": "chain", "start": "Expr", "classes": [
    _c("Expr", "", abstract=True), _c("Leaf", "Expr", [("v", I01)]), _c("Wrap", "Expr", [("e", E)])]}


def declared_from_spec(decl, spec):
    """overwrite the reflected weights / abstract flags of a projected declaration with what the spec (the text the classes
    were generated from) says: the decorators store them in the same per-class dict the library reads"""
    for c in spec["classes"]:
        d = decl["classes"].get(c["name"])
        if d is None:
            continue
        d["abstract"] = bool(c["abstract"])
        if "weight" in c:
            d["hasw"], d["w"] = True, int(round(c["weight"] * 10000))
        else:
            d["hasw"], d["w"] = False, 10000
    return decl


def fixed_specs():
    return [dict(s) for s in FIXED]


def family(R, n, feats_list):
    """n generated specs cycling through the given feature sets"""
    out = []
    for i in range(n):
        feats = feats_list[i % len(feats_list)]
        out.append(gen_spec(R, feats, gid=f"g{i}"))
    return out


# ------------------------------------------------------------------------------------------------
# raw-source grammars (custom metahandlers): shaped after tests/representations/dependent_types_context_test.py,
# whose dependent refinement makes a production infeasible in some contexts (VarRange over an empty context
# raises SynthesisException and create_node backtracks)
RAW_CTX = HEADER + '''
import string
from typing import Any, Callable
from geneticengine.grammar.metahandlers.base import MetaHandlerGenerator
from geneticengine.solutions.tree import GengyList

class AnyContext(MetaHandlerGenerator):
    def generate(self, random, grammar, base_type, rec, dependent_values):
        return GengyList(str, [])
    def validate(self, v) -> bool:
        return True

class ContextMH(MetaHandlerGenerator):
    def __init__(self, ctx):
        self.ctx = ctx
    def generate(self, random, grammar, base_type, rec, dependent_values):
        return rec(base_type, initial_values={"ctx": self.ctx})
    def validate(self, v) -> bool:
        return True

class Expr(ABC):
    pass

@dataclass
class Literal(Expr):
    v: Annotated[int, IntRange(0, 3)]

@dataclass
class Let(Expr):
    ctx: Annotated[list[str], AnyContext()]
    name: Annotated[str, VarRange(list("abc"))]
    body: Annotated[Expr, Dependent("ctx,name", lambda ctx, name: ContextMH(ctx + [name]))]

@dataclass
class Var(Expr):
    ctx: Annotated[list[str], AnyContext()]
    name: Annotated[str, Dependent("ctx", lambda ctx: VarRange(ctx))]
'''

# the same idea with a non-terminal that has exactly ONE production which can be infeasible, below a non-terminal
# that can backtrack to another production
RAW_CTX2 = RAW_CTX.replace("""@dataclass
class Var(Expr):""", """class Ref(ABC):
    pass

@dataclass
class Use(Expr):
    ref: Ref

@dataclass
class Var(Ref):""")

# the context grammar with a production of weight zero listed AFTER the production that can fail while it is built
RAW_CTXW = RAW_CTX + '''

@weight(0)
@dataclass
class Legacy(Expr):
    v: Annotated[int, IntRange(0, 1)]
'''
RAW_WEIGHTED = [{"id": "ctxw", "source": RAW_CTXW, "start": "Expr", "names": ["Expr", "Literal", "Let", "Var", "Legacy"],
                 "feats": ["raw"]}]

# a refinement that INJECTS a value into the production it creates; a production further down declares a field of the
# same name with a refinement of its own (injected values are for the production they are given to)
RAW_SCOPED = HEADER + '''
from geneticengine.grammar.metahandlers.base import MetaHandlerGenerator

class Scoped(MetaHandlerGenerator):
    def __init__(self, width):
        self.width = width
    def generate(self, random, grammar, base_type, rec, dependent_values):
        return rec(base_type, initial_values={"width": self.width})
    def validate(self, v) -> bool:
        return True

@dataclass
class Cell:
    width: Annotated[int, IntRange(0, 3)]

@dataclass
class Row:
    width: Annotated[int, IntRange(5, 9)]
    first: Cell
    rest: Annotated[list[Cell], ListSizeBetween(1, 2)]

class Doc(ABC):
    pass

@dataclass
class Table(Doc):
    width: Annotated[int, IntRange(5, 9)]
    row: Annotated[Row, Dependent("width", lambda width: Scoped(width))]

@dataclass
class Stack(Doc):
    top: Doc
    cell: Cell
'''

RAW = [{"id": "scoped", "source": RAW_SCOPED, "start": "Doc", "names": ["Doc", "Cell", "Row", "Table", "Stack"], "feats": ["raw"],
        "reps": ["tree", "ge", "sge", "dsge"]},      # (the stack machine has no notion of injected values)
       {"id": "ctx", "source": RAW_CTX, "start": "Expr", "names": ["Expr", "Literal", "Let", "Var"], "feats": ["raw"]},
       {"id": "ctx2", "source": RAW_CTX2, "start": "Expr", "names": ["Expr", "Literal", "Let", "Ref", "Use", "Var"],
        "feats": ["raw"]}]


# user-written LIST refinements (a documented extension point; GengyList is a list): the list is built while its elements
# are generated, or trimmed afterwards, so its contents are not the object its constructor was given
RAW_INCR = HEADER + '''
from geneticengine.grammar.metahandlers.base import MetaHandlerGenerator
from geneticengine.solutions.tree import GengyList

class Incremental(MetaHandlerGenerator):
    def generate(self, random, grammar, base_type, rec, dependent_values):
        inner = base_type.__args__[0]
        out = GengyList(inner, [])
        for _ in range(random.randint(1, 3)):
            out.append(rec(inner))
        return out
    def validate(self, v) -> bool:
        return True

class Trimmed(MetaHandlerGenerator):
    def generate(self, random, grammar, base_type, rec, dependent_values):
        inner = base_type.__args__[0]
        out = GengyList(inner, [rec(inner) for _ in range(3)])
        del out[random.randint(1, 2):]
        return out
    def validate(self, v) -> bool:
        return True

class Expr(ABC):
    pass

@dataclass
class Num(Expr):
    v: Annotated[int, IntRange(0, 3)]

@dataclass
class Poly(Expr):
    ts: Annotated[list[Expr], Incremental()]

@dataclass
class Cut(Expr):
    ts: Annotated[list[Expr], Trimmed()]
'''
C11_EXTRA = [{"id": "incrlist", "source": RAW_INCR, "start": "Expr", "names": ["Expr", "Num", "Poly", "Cut"], "feats": ["raw"],
              "reps": ["tree"]}]


# a weighted string whose FIRST letter is impossible at some position, in the first production (boundary genotypes reach it)
C02_EXTRA = [{"id": "wstr-first-zero", "start": "Expr", "classes": [
    _c("Expr", "", abstract=True),
    _c("W", "Expr", [("w", ("ann", ("base", "str"), ("WeightedStr", [[0.0, 1.0, 0.0], [0.0, 0.5, 0.5], [1.0, 0.0, 0.0]], ["a", "c", "g"])))]),
    _c("Op", "Expr", [("l", E), ("r", E)])]}]


def build_raw(raw) -> Built:
    name = f"verifg_{next(_counter)}"
    mod = types.ModuleType(name)
    sys.modules[name] = mod
    exec(compile(raw["source"], f"<{name}>", "exec", dont_inherit=True), mod.__dict__)
    spec = {"id": raw["id"], "start": raw["start"],
            "classes": [{"name": n, "abstract": n == raw["start"], "parent": "", "fields": []} for n in raw["names"]],
            "feats": raw.get("feats", []), "reps": raw.get("reps")}
    b = Built(spec, mod, raw["source"])
    b.raw = True
    return b


def lang_size(spec, d, cap=10 ** 7):
    """number of programs of depth <= d (budgeting only: decides whether a set comparison is affordable)"""
    classes = {c["name"]: c for c in spec["classes"]}
    prods = {}
    for c in spec["classes"]:
        prods.setdefault(c["parent"], []).append(c["name"])
    memo = {}

    def form(f, dd):
        k = f[0]
        if k == "base":
            return 2 if f[1] == "bool" else 1
        if k == "sym":
            return sym(f[1], dd)
        if k == "union":
            return min(cap, sum(form(x, dd) for x in f[1]))
        if k == "tuple":
            n = 1
            for x in f[1]:
                n = min(cap, n * form(x, dd))
            return n
        if k == "list":
            e = form(f[1], dd)
            return min(cap, sum(e ** i for i in range(0, 3)))
        if k == "ann":
            mh = f[2]
            if mh[0] == "IntRange":
                return mh[2] - mh[1] + 1
            if mh[0] in ("IntList", "VarRange", "FloatList"):
                return len(mh[1])
            if mh[0] in ("ListSize", "ListSizeNoOps"):
                e = form(f[1][1], dd)
                return min(cap, sum(e ** i for i in range(mh[1], mh[2] + 1)))
            return 1
        return 1

    def sym(name, dd):
        if (name, dd) in memo:
            return memo[(name, dd)]
        c = classes[name]
        if c["abstract"]:
            r = min(cap, sum(sym(p, dd) for p in prods.get(name, [])))
        elif dd < 1:
            r = 0
        else:
            r = 1
            for _, f in c["fields"]:
                r = min(cap, r * form(f, dd - 1))
        memo[(name, dd)] = r
        return r

    return sym(spec["start"], d)
