"""Advisory: where tournament selection draws its participants from (Trace_Tournament)."""
from __future__ import annotations

import argparse

from harness.common import Batch, rng, write_summary
from harness.drv_steps import selection_traces


def main():
    ap = argparse.ArgumentParser()
    ap.add_argument("--out", required=True)
    ap.add_argument("--tier", default="quick")
    ap.add_argument("--seed", type=int, default=0)
    ap.add_argument("--shards", type=int, default=1)
    ap.add_argument("--prop", default="C17")
    ap.add_argument("--gen", default="")
    a = ap.parse_args()
    R = rng(a.seed, "tournament")
    batch = Batch("C17", {"tier": a.tier, "seed": a.seed, "prop": "C17"})
    nev = 0
    keep = 1500 if a.tier == "quick" else 12000
    tr = [t for t in selection_traces(R, a.tier, part="tournament-sample") if t[0].startswith("tour/")]
    stride = max(1, len(tr) // keep)
    for (tid, evs, cfg) in tr[::stride]:
        evs = [e for e in evs if e["e"] in ("selstart", "draw", "win")]
        batch.trace(tid, evs, cfg)
        nev += len(evs)
    paths = batch.shards(a.out, a.shards)
    write_summary(a.out, {"batches": paths, "traces": len(batch.traces), "events": nev})


if __name__ == "__main__":
    main()
