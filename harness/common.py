"""Shared helpers of the conformance drivers (run under /venv/bin/python with PYTHONPATH=<repo>)."""
from __future__ import annotations

import argparse
import json
import os
import random
import sys

LIM = 2 ** 30


def ranks(values):
    """order isomorphism onto small ints: dense ranks of the given numbers (equal -> equal)."""
    uniq = sorted(set(values))
    idx = {v: i for i, v in enumerate(uniq)}
    return [idx[v] for v in values]


def enc_ints(values):
    """ints as they are when all are small, else their dense ranks (only order/equality is used)."""
    if all(isinstance(v, int) and not isinstance(v, bool) and -LIM < v < LIM for v in values):
        return list(values), False
    return ranks(values), True


def tyname(v):
    return type(v).__name__


def is_lib_exc(e):
    """is the exception class defined by the library (geneticengine.*)?"""
    return type(e).__module__.split(".")[0] == "geneticengine"


def exc_name(e):
    return type(e).__name__


class Batch:
    def __init__(self, prop, meta=None):
        self.prop = prop
        self.meta = dict(meta or {})
        self.traces = []
        self.extra = {}

    def trace(self, tid, events, cfg=None):
        self.traces.append({"id": str(tid), "cfg": cfg if cfg is not None else {"k": "none"}, "events": events})

    def dump(self, path):
        check_json(self.traces)
        d = {"meta": self.meta, "traces": self.traces}
        d.update(self.extra)
        os.makedirs(os.path.dirname(path), exist_ok=True)
        with open(path, "w") as f:
            json.dump(d, f, separators=(",", ":"))

    def shards(self, outdir, n):
        """split traces into n batch files (round robin keeps sizes even); returns paths"""
        n = max(1, min(n, len(self.traces) or 1))
        paths = []
        for k in range(n):
            b = Batch(self.prop, self.meta)
            b.traces = self.traces[k::n]
            b.extra = self.extra
            p = os.path.join(outdir, f"batch_{k:02d}.json")
            b.dump(p)
            paths.append(p)
        return paths


def check_json(x, path="$"):
    """TLC's JSON reader rejects null and truncates floats: refuse to emit them."""
    if x is None:
        raise ValueError(f"null at {path}")
    if isinstance(x, bool):
        return
    if isinstance(x, float):
        raise ValueError(f"float at {path}")
    if isinstance(x, int):
        if not -2 ** 31 < x < 2 ** 31:
            raise ValueError(f"int out of TLC range at {path}: {x}")
        return
    if isinstance(x, str):
        return
    if isinstance(x, (list, tuple)):
        for i, y in enumerate(x):
            check_json(y, f"{path}[{i}]")
        return
    if isinstance(x, dict):
        for k, y in x.items():
            if not isinstance(k, str):
                raise ValueError(f"non-string key at {path}: {k!r}")
            check_json(y, f"{path}.{k}")
        return
    raise ValueError(f"unsupported {type(x)} at {path}")


def std_args(argv=None):
    ap = argparse.ArgumentParser()
    ap.add_argument("--out", required=True)
    ap.add_argument("--tier", default="quick")
    ap.add_argument("--seed", type=int, default=0)
    ap.add_argument("--shards", type=int, default=1)
    ap.add_argument("--replay", default=None)
    return ap.parse_args(argv)


def rng(seed, salt=""):
    return random.Random(f"{seed}:{salt}")


def write_summary(outdir, summary):
    with open(os.path.join(outdir, "driver_summary.json"), "w") as f:
        json.dump(summary, f)


class HangTimeout(Exception):
    """a library call did not return within the watchdog limit"""


class time_limit:
    """watchdog for library calls that may not terminate (SIGALRM based, main thread only)"""

    def __init__(self, seconds):
        self.seconds = seconds

    def _fire(self, signum, frame):
        raise HangTimeout(f"no return within {self.seconds}s")

    def __enter__(self):
        import signal
        self._old = signal.signal(signal.SIGALRM, self._fire)
        signal.setitimer(signal.ITIMER_REAL, self.seconds)
        return self

    def __exit__(self, *a):
        import signal
        signal.setitimer(signal.ITIMER_REAL, 0)
        signal.signal(signal.SIGALRM, self._old)
        return False
