"""Observation of real searches through the library's public extension points only:

ProbeRep        a Representation that delegates to a real one and stamps every mapped phenotype
                with a fresh token (one token per Individual, because Individual caches its phenotype)
FitnessProbe    the fitness function: logs (token, returned value); scripted by invocation order or
                determined by the program
RecordingBudget a SearchBudget delegating to the real budget, logging every is_done call
Observer        a SearchRecorder logging every registration and the tracker's best afterwards
"""
from __future__ import annotations

import itertools
from abc import ABC
from dataclasses import dataclass
from typing import Annotated

from geneticengine.evaluation.budget import SearchBudget, EvaluationBudget, TargetFitness, AnyOf
from geneticengine.evaluation.recorder import SearchRecorder
from geneticengine.evaluation.tracker import SingleObjectiveProgressTracker, MultiObjectiveProgressTracker
from geneticengine.grammar.grammar import extract_grammar
from geneticengine.grammar.metahandlers.ints import IntRange
from geneticengine.problems import SingleObjectiveProblem, MultiObjectiveProblem
from geneticengine.representations.api import Representation, RepresentationWithMutation, RepresentationWithCrossover
from geneticengine.representations.tree.treebased import TreeBasedRepresentation
from geneticengine.representations.tree.initializations import MaxDepthDecider
from geneticengine.representations.grammatical_evolution.ge import GrammaticalEvolutionRepresentation

from harness.common import ranks


class SRoot(ABC):
    pass


@dataclass(unsafe_hash=True)
class SLeaf(SRoot):
    v: Annotated[int, IntRange(0, 11)]


@dataclass(unsafe_hash=True)
class SPlus(SRoot):
    l: SRoot
    r: SRoot


def search_grammar():
    return extract_grammar([SLeaf, SPlus], SRoot)


def prog_value(p):
    """a deterministic integer of the program's structure"""
    if isinstance(p, SLeaf):
        return p.v
    if isinstance(p, SPlus):
        return (3 * prog_value(p.l) + 5 * prog_value(p.r) + 1) % 12
    return 0


class Ph:
    """a phenotype stamped with the token of the mapping call that produced it"""
    __slots__ = ("token", "prog")

    def __init__(self, token, prog):
        self.token = token
        self.prog = prog

    def __repr__(self):
        return f"Ph{self.token}({self.prog})"


class ProbeRep(Representation, RepresentationWithMutation, RepresentationWithCrossover):
    """delegates to a real representation; stamps phenotypes with tokens and (optionally) logs the lineage of every
    genotype: how it came into being (create / mutate / crossover) and from which mapped parents"""

    def __init__(self, inner, lineage_events=None):
        self.inner = inner
        self.tokens = itertools.count(1)
        self.grammar = getattr(inner, "grammar", None)
        self.lineage_events = lineage_events
        self._origin = {}      # id(genotype) -> (how, [parent genotypes]); genotypes are kept alive in _keep
        self._tok = {}         # id(genotype) -> token of its (first) mapping
        self._keep = []

    def _born(self, g, how, parents):
        self._keep.append(g)
        self._origin[id(g)] = (how, list(parents))
        return g

    def create_genotype(self, random, **kwargs):
        return self._born(self.inner.create_genotype(random, **kwargs), "create", [])

    def genotype_to_phenotype(self, genotype):
        tok = next(self.tokens)
        if self.lineage_events is not None:
            how, parents = self._origin.get(id(genotype), ("unknown", []))
            self.lineage_events.append({"e": "born", "tok": tok, "how": how,
                                        "ptoks": [self._tok.get(id(p), 0) for p in parents]})
        self._tok.setdefault(id(genotype), tok)
        return Ph(tok, self.inner.genotype_to_phenotype(genotype))

    def mutate(self, random, genotype, **kwargs):
        return self._born(self.inner.mutate(random, genotype, **kwargs), "mutate", [genotype])

    def crossover(self, random, parent1, parent2, **kwargs):
        a, b = self.inner.crossover(random, parent1, parent2, **kwargs)
        self._born(a, "crossover", [parent1, parent2])
        self._born(b, "crossover", [parent1, parent2])
        return a, b


class TokenTreeRep(TreeBasedRepresentation):
    """a genuine TreeBasedRepresentation (some initialisers insist on one) whose phenotypes carry a token"""

    def __init__(self, grammar, decider):
        super().__init__(grammar, decider)
        self._tokens = itertools.count(1)

    def genotype_to_phenotype(self, genotype):
        return Ph(next(self._tokens), super().genotype_to_phenotype(genotype))


def make_rep(kind, random, grammar=None, lineage_events=None):
    g = grammar or search_grammar()
    if kind == "tree":
        return ProbeRep(TreeBasedRepresentation(g, MaxDepthDecider(random, g, 4)), lineage_events)
    if kind == "ge":
        return ProbeRep(GrammaticalEvolutionRepresentation(g, MaxDepthDecider(random, g, 4), gene_length=24), lineage_events)
    raise ValueError(kind)


class TransientFailure(Exception):
    """what a fitness function raises when an evaluation times out / a resource is briefly unavailable"""


class FitnessProbe:
    """fitness function + invocation log.  mode 'scripted': the k-th invocation returns hist[k % len];
    mode 'table': the value is table[prog_value(program) % len]."""

    def __init__(self, events, mode, values, single=True):
        self.events = events
        self.mode = mode
        self.values = [list(v) for v in values]
        self.k = 0
        self.single = single

    fail_at = ()            # invocation numbers (0-based) at which the fitness function raises instead of returning
    conv = None             # e.g. numpy.uint8: the callback hands back narrow unsigned scalars (counts, pixel errors)

    def __call__(self, ph):
        if self.k in self.fail_at:
            self.k += 1
            raise TransientFailure(f"fitness invocation {self.k - 1} failed")
        if self.mode == "scripted":
            v = self.values[self.k % len(self.values)]
        else:
            v = self.values[prog_value(ph.prog) % len(self.values)]
        self.k += 1
        self.events.append({"e": "ff", "tok": ph.token, "ret": list(v)})
        if self.conv is not None and all(isinstance(x, int) and 0 <= x <= 255 for x in v):
            return self.conv(v[0]) if self.single else [self.conv(x) for x in v]
        return fv(v[0]) if self.single else [fv(x) for x in v]


class Stalled(Exception):
    pass


class RecordingBudget(SearchBudget):
    def __init__(self, inner, events, target=None, tol=0.0001, stall_limit=40, ffcount=None, max_checks=300, mtargets=None):
        self.inner = inner
        self.events = events
        self.target = target
        self.tol = tol
        self.stall_limit = stall_limit
        self.last = None
        self.stalled = 0
        self.ffcount = ffcount      # callable: fitness invocations so far
        self.ff_at_stall_start = 0
        self.max_checks = max_checks
        self.nchecks = 0
        self.mtargets = mtargets    # multi-objective target budgets: one target per component (tolerance 0.001)

    def is_done(self, tracker):
        done = bool(self.inner.is_done(tracker))
        count = tracker.get_number_evaluations()
        hasbest, c = False, 0.0
        cs = []
        if isinstance(tracker, SingleObjectiveProgressTracker):
            b = tracker.get_best_individual()
            if b is not None:
                hasbest, c = True, b.get_fitness(tracker.get_problem()).fitness_components[0]
        else:
            fr = tracker.get_best_individuals()
            if fr:
                comps = fr[0].get_fitness(tracker.get_problem()).fitness_components
                hasbest, c = True, comps[0]
                if self.mtargets is not None:
                    for ck, tk in zip(comps, self.mtargets):
                        cs.append(ranks([ck, tk - 0.001, tk + 0.001]))
        if self.target is not None:
            rk = ranks([c, self.target - self.tol, self.target + self.tol])
        else:
            rk = [0, 0, 0]
        self.events.append({"e": "check", "count": count, "done": done, "hasbest": hasbest,
                            "c": rk[0], "tlo": rk[1], "thi": rk[2], "cs": cs})
        self.nchecks += 1
        if not done and self.nchecks >= self.max_checks:
            # watchdog: far more checks than any budget of the driver needs
            self.events.append({"e": "lasso", "checks": self.nchecks, "ffs": 1})
            raise Stalled()
        # watchdog: the counter did not move over many consecutive checks
        if self.last == count and not done:
            if self.stalled == 0 and self.ffcount:
                self.ff_at_stall_start = self.ffcount()
            self.stalled += 1
            if self.stalled >= self.stall_limit:
                ffs = (self.ffcount() - self.ff_at_stall_start) if self.ffcount else 0
                self.events.append({"e": "lasso", "checks": self.stalled, "ffs": ffs})
                raise Stalled()
        else:
            self.stalled = 0
        self.last = count
        return done


class Ids:
    """object identity -> small ints by first appearance; holds strong references"""

    def __init__(self):
        self.objs = []
        self.map = {}

    def of(self, o):
        if o is None:
            return 0
        k = id(o)
        if k not in self.map:
            self.objs.append(o)
            self.map[k] = len(self.objs)
        return self.map[k]


INF_TOKEN = 2147483000  # stands for float("inf") in histories and events (order is preserved: every other value is smaller;
                        # TLC's integers are 32-bit)


def fv(x):
    """history value -> the float the fitness function returns"""
    return float("inf") if x == INF_TOKEN else float("-inf") if x == -INF_TOKEN else float(x)


def iv(c):
    """a fitness number -> the integer used in events"""
    c = float(c)
    if c == float("inf"):
        return INF_TOKEN
    if c == float("-inf"):
        return -INF_TOKEN
    assert c.is_integer(), c
    return int(c)


def icomps(comps):
    return [iv(c) for c in comps]


class Observer(SearchRecorder):
    def __init__(self, events, ids):
        self.events = events
        self.ids = ids

    def register(self, tracker, individual, problem, is_best):
        f = individual.get_fitness(problem)
        best, front = 0, []
        if isinstance(tracker, SingleObjectiveProgressTracker):
            best = self.ids.of(tracker.get_best_individual())
        else:
            front = [self.ids.of(i) for i in tracker.get_best_individuals()]
        agg = f.maximizing_aggregate
        self.events.append({"e": "reg", "ind": self.ids.of(individual), "tok": individual.get_phenotype().token,
                            "comps": icomps(f.fitness_components), "agg": iv(agg), "isbest": bool(is_best),
                            "best": best, "front": front})
