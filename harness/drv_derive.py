"""Decision-level conformance driver: every production / union choice create_node asks of the decider is recorded
through a delegating SynthesisDecider and replayed by TLC on the produced program (Trace_Derive)."""
from __future__ import annotations

import argparse
import copy

from harness.common import Batch, rng, write_summary, time_limit
from harness import grammars as GR
from harness.proj import declared_grammar, impl_grammar, term_of, form_of, finalize

from geneticengine.grammar.grammar import extract_grammar
from geneticengine.grammar.utils import is_union
from geneticengine.random.sources import NativeRandomSource
from geneticengine.representations.tree.treebased import TreeBasedRepresentation
from geneticengine.representations.tree.initializations import (SynthesisDecider, MaxDepthDecider, FullDecider,
                                                                 PositionIndependentGrowDecider,
                                                                 ProgressivelyTerminalDecider)
from geneticengine.representations.grammatical_evolution.ge import GrammaticalEvolutionRepresentation
from geneticengine.representations.grammatical_evolution.structured_ge import StructuredGrammaticalEvolutionRepresentation

FEATS = [
    {"intrange", "nested_abstract", "concrete_ref"},
    {"intrange", "sizedlist", "union", "nested_abstract"},
    {"intrange", "bool", "int", "varrange", "sizedlist", "concrete_ref", "tuple"},
    {"intrange", "plainlist", "union", "nested"},
]


class RecordingDecider(SynthesisDecider):
    """delegates every call to the real decider and logs the structural decisions"""

    def __init__(self, inner, log):
        self.inner = inner
        self.log = log

    def __copy__(self):
        return RecordingDecider(copy.copy(self.inner), self.log)

    @property
    def random(self):
        return self.inner.random

    @random.setter
    def random(self, v):
        self.inner.random = v

    def random_int(self, *a, **k):
        return self.inner.random_int(*a, **k)

    def random_float(self):
        return self.inner.random_float()

    def random_str(self):
        return self.inner.random_str()

    def random_bool(self):
        return self.inner.random_bool()

    def choose_options(self, alternatives, ctx):
        return self.inner.choose_options(alternatives, ctx)

    def choose_production_alternatives(self, ty, alternatives, ctx):
        offered = list(alternatives)
        chosen = self.inner.choose_production_alternatives(ty, alternatives, ctx)
        self.log.append({"sym": "union" if is_union(ty) else ty.__name__, "c": int(ctx.depth),
                         "offered": [form_of(a) for a in offered], "chosen": form_of(chosen)})
        return chosen


DECIDERS = {"grow": MaxDepthDecider, "full": FullDecider, "pigrow": PositionIndependentGrowDecider}


def one(spec, R, batch, stats, quick):
    b = GR.build(spec)
    try:
        g = extract_grammar(b.considered, b.start)
        decl = b.oracle()
        impl0 = impl_grammar(g)
        mind = int(g.get_min_tree_depth())
        evs = []
        for kind in ("grow", "full", "pigrow", "pt"):
            for d in ([mind, mind + 1, mind + 3] if kind != "pt" else [0]):
                for rname in ("tree", "ge", "sge"):
                    for _ in range(2 if quick else 6):
                        rs = NativeRandomSource(R.randint(0, 10 ** 6))
                        try:
                            inner = ProgressivelyTerminalDecider(rs, g) if kind == "pt" else DECIDERS[kind](rs, g, d)
                        except Exception:
                            continue
                        log = []
                        dec = RecordingDecider(inner, log)
                        try:
                            with time_limit(15):
                                if rname == "tree":
                                    prog = TreeBasedRepresentation(g, dec).create_genotype(rs)
                                elif rname == "ge":
                                    rep = GrammaticalEvolutionRepresentation(g, dec, gene_length=48)
                                    prog = rep.genotype_to_phenotype(rep.create_genotype(rs))
                                else:
                                    rep = StructuredGrammaticalEvolutionRepresentation(g, dec, gene_length=24)
                                    prog = rep.genotype_to_phenotype(rep.create_genotype(rs))
                        except Exception:
                            continue
                        evs.append({"e": "derivation", "decider": kind, "d": d, "rep": rname, "decisions": list(log),
                                    "prog": term_of(prog), "backtracked": False})
        batch.trace(spec["id"], evs, {"k": "derive", "g": decl, "impl0": impl0})
        stats["events"] += len(evs)
    finally:
        b.dispose()


def main():
    ap = argparse.ArgumentParser()
    ap.add_argument("--out", required=True)
    ap.add_argument("--tier", default="quick")
    ap.add_argument("--seed", type=int, default=0)
    ap.add_argument("--shards", type=int, default=1)
    ap.add_argument("--prop", default="C03")
    a = ap.parse_args()
    R = rng(a.seed, "derive")
    batch = Batch("C03", {"tier": a.tier, "seed": a.seed, "prop": "C03"})
    stats = {"events": 0}
    quick = a.tier == "quick"
    for spec in GR.fixed_specs() + GR.family(R, 30 if quick else 400, FEATS):
        one(spec, R, batch, stats, quick)
    batch.traces = finalize(batch.traces)
    paths = batch.shards(a.out, a.shards)
    write_summary(a.out, {"batches": paths, "traces": len(batch.traces), "events": stats["events"]})


if __name__ == "__main__":
    main()
