"""Random sources used by the conformance harness.

ScriptedSource  : answers raw draws from a script; `explore` drives a callable through EVERY
                  outcome of its raw draws (DFS over the decision tree) -- mechanism (E).
RecordingSource : wraps another source, logs raw draws; the derived primitives (choice, shuffle,
                  ...) are the library's own base-class code running on top of the wrapper.

Nothing here takes a property-relevant decision: sources only choose and record.
"""
from __future__ import annotations

from geneticengine.random.sources import RandomSource


class Exhausted(Exception):
    """raised when an exploration exceeds its leaf budget"""


class ScriptedSource(RandomSource):
    """randint(lo,hi) returns the script's option at this position (option 0 beyond the script).

    For ranges wider than `cap` only a boundary subset of values is offered."""

    def __init__(self, script=None, cap=64, float_fracs=(0.0, 0.5, 0.984375)):
        self.script = list(script or [])
        self.pos = 0
        self.widths = []          # number of options at each position
        self.log = []             # (lo, hi, value)
        self.cap = cap
        self.float_fracs = float_fracs

    def options(self, lo, hi):
        w = hi - lo + 1
        if w <= self.cap:
            return None  # all
        cand = [lo, lo + 1, lo + w // 2, hi - 1, hi]
        out = []
        for c in cand:
            if lo <= c <= hi and c not in out:
                out.append(c)
        return out

    def _pick(self, n):
        if self.pos < len(self.script):
            k = self.script[self.pos]
        else:
            k = 0
            self.script.append(0)
        if len(self.widths) <= self.pos:
            self.widths.append(n)
        else:
            self.widths[self.pos] = n
        self.pos += 1
        assert 0 <= k < n, (k, n)
        return k

    def randint(self, min, max):
        assert min <= max, ("randint with empty range", min, max)
        opts = self.options(min, max)
        if opts is None:
            v = min + self._pick(max - min + 1)
        else:
            v = opts[self._pick(len(opts))]
        self.log.append((min, max, v))
        return v

    def random_float(self, min, max):
        k = self._pick(len(self.float_fracs))
        v = self.float_fracs[k] * (max - min) + min
        self.log.append((min, max, v))
        return v

    def next_script(self):
        """script of the next leaf in DFS order, or None when the tree is exhausted"""
        s = self.script[: self.pos]
        w = self.widths[: self.pos]
        i = len(s) - 1
        while i >= 0 and s[i] >= w[i] - 1:
            i -= 1
        if i < 0:
            return None
        return s[:i] + [s[i] + 1]


def explore(fn, cap=64, max_leaves=200000, float_fracs=(0.0, 0.5, 0.984375)):
    """yield (script, source, result_or_exception) for every leaf of fn's decision tree"""
    script = []
    leaves = 0
    while script is not None:
        src = ScriptedSource(script, cap=cap, float_fracs=float_fracs)
        try:
            res = fn(src)
        except Exception as e:  # the caller projects exceptions; nothing is swallowed
            res = e
        yield list(src.script[: src.pos]), src, res
        leaves += 1
        if leaves >= max_leaves:
            raise Exhausted(leaves)
        script = src.next_script()


class RecordingSource(RandomSource):
    """Delegates raw draws to `inner`, counts and logs them."""

    def __init__(self, inner: RandomSource):
        self.inner = inner
        self.raw = []      # (kind, lo, hi, value)
        self.count = 0

    def randint(self, min, max):
        v = self.inner.randint(min, max)
        self.count += 1
        self.raw.append(("i", min, max, v))
        return v

    def random_float(self, min, max):
        v = self.inner.random_float(min, max)
        self.count += 1
        self.raw.append(("f", min, max, v))
        return v

    def normalvariate(self, mean, sigma):
        # NativeRandomSource overrides normalvariate; keep its behaviour and count the draw
        v = self.inner.normalvariate(mean, sigma)
        self.count += 1
        self.raw.append(("n", mean, sigma, v))
        return v
