"""C18 driver: every random primitive of every RandomSource implementation, through the real code.

(E) derived primitives of the RandomSource base class and the deciders' integer draw are driven
    through ALL raw draws of small ranges by a ScriptedSource (boundary subsets on wide ranges);
(T) the native source and the gene-backed sources are sampled over boundary bounds and gene lists.
Events carry arguments and results only; TLC (Trace_C18) evaluates the contracts.
"""
from __future__ import annotations

import itertools
import sys
from dataclasses import dataclass
from abc import ABC

from harness.common import Batch, enc_ints, ranks, std_args, rng, tyname, exc_name, write_summary
from harness.sources import ScriptedSource, explore

from geneticengine.random.sources import NativeRandomSource, RandomSource
from geneticengine.representations.grammatical_evolution.ge import ListWrapper as GEList
from geneticengine.representations.stackgggp import ListWrapper as StackList
from geneticengine.representations.grammatical_evolution.structured_ge import StructuredListWrapper
from geneticengine.representations.grammatical_evolution import dynamic_structured_ge as dsge
from geneticengine.representations.tree.initializations import MaxDepthDecider, ProgressivelyTerminalDecider
from geneticengine.grammar.grammar import extract_grammar

MAXS = sys.maxsize


class _Root(ABC):
    pass


@dataclass
class _Leaf(_Root):
    x: int


GRAMMAR = extract_grammar([_Leaf], _Root)


def ev_int(src, name, lo, hi, r, exc="", ty="int"):
    if exc:
        vals, ranked = enc_ints([lo, hi])
        return {"e": "prim", "src": src, "name": name, "lo": vals[0], "hi": vals[1], "r": 0,
                "ranked": ranked, "ty": ty, "exc": exc}
    if isinstance(r, float) or isinstance(lo, float) or isinstance(hi, float):
        vals, ranked = ranks([lo, hi, r]), True
    else:
        vals, ranked = enc_ints([lo, hi, r])
    return {"e": "prim", "src": src, "name": name, "lo": vals[0], "hi": vals[1], "r": vals[2],
            "ranked": ranked, "ty": ty, "exc": exc}


def call(fn):
    try:
        return fn(), ""
    except Exception as e:  # recorded, judged by the spec
        return None, exc_name(e)


def ev_choice(src, options, r, exc):
    return {"e": "prim", "src": src, "name": "choice", "lst": list(options), "r": r if not exc else 0, "exc": exc}


def ev_weighted(src, ws, k, exc, raw=-1):
    # options are 1..n so the result is the chosen index; ws are the integer weights (x 1e-5 or x 1)
    return {"e": "prim", "src": src, "name": "choice_weighted", "ws": list(ws), "r": k if not exc else 0,
            "raw": raw, "exc": exc}


def ev_shuffle(src, before, after, exc):
    return {"e": "prim", "src": src, "name": "shuffle", "lst": list(before),
            "after": list(after) if not exc else [], "exc": exc}


def ev_pop(src, before, after, r, exc):
    return {"e": "prim", "src": src, "name": "pop_random", "lst": list(before),
            "after": list(after) if not exc else [], "r": r if not exc else 0, "exc": exc}


class Box:
    """equal-but-distinct list elements: equality by value, identity by uid"""
    def __init__(self, v, uid):
        self.v, self.uid = v, uid

    def __eq__(self, other):
        return isinstance(other, Box) and other.v == self.v

    def __hash__(self):
        return hash(self.v)


def pop_identity(s, lst):
    """pop_random on a list of Box objects; reported by IDENTITY (uids), so that removing an equal but different element
    from the one returned is visible"""
    boxes = [Box(v, i + 1) for i, v in enumerate(lst)]
    work = list(boxes)
    r = s.pop_random(work)
    return (r.uid if isinstance(r, Box) else 0, [b.uid if isinstance(b, Box) else 0 for b in work], [b.uid for b in boxes])


def ev_bool(src, r, exc):
    return {"e": "prim", "src": src, "name": "random_bool", "ty": tyname(r) if not exc else "none", "exc": exc}


LISTS = [[7], [7, 8], [7, 8, 9], [7, 7, 8], [1, 2, 3, 4], [5, 5, 5]]
# equal (and adjacent) float bounds whose significands are "busy": any arithmetic detour shows as a last-bit error
import math as _math
EQUAL_FLOATS = [(123.456, 123.456), (1 / 3, 1 / 3), (6.02e23, 6.02e23), (-0.1, -0.1), (1e-7, 1e-7),
                (123.456, _math.nextafter(123.456, 1e9)), (_math.nextafter(1 / 3, 0.0), 1 / 3)]
FRAC_WS = [[0, 700, 200, 100], [0] + [100] * 10, [0, 300, 300, 300, 100], [0, 100, 200, 700], [100, 200, 0, 700],
           [0, 333, 333, 334], [0, 1, 999], [700, 200, 100, 0]]
# weights below the 1e-5 resolution of choice_weighted, in units of 1e-7
SUB_WS = [[0, 10], [10, 0], [0, 40, 0], [0, 50, 50], [0, 0, 99], [1, 0]]
TINY_WS = [[0, 3, 1], [3, 0, 1], [3, 1, 0], [0, 0, 2], [2, 0, 0], [1, 1], [5], [0, 1], [1, 0], [2, 3, 5],
           [0, 0, 0, 4], [1, 0, 1, 0], [0, 2, 0, 2]]
INT_BOUNDS = [(0, 0), (5, 5), (-3, -3), (0, 1), (-1, 1), (-7, -2), (0, 9), (0, 255), (0, 1000), (0, 1001),
              (-500, 502), (1, MAXS), (0, MAXS), (-MAXS, MAXS), (-(MAXS - 1), MAXS), (MAXS - 1, MAXS),
              (-10000, 10000), (32, 128)]


def derived_over(src_name, mk_source_explore, batch, stats, tid_prefix):
    """derived primitives (base-class code) through every raw outcome offered by the explorer"""
    # choice
    for lst in LISTS:
        evs = []
        for _, s, res in mk_source_explore(lambda s: s.choice(list(lst))):
            exc = exc_name(res) if isinstance(res, Exception) else ""
            evs.append(ev_choice(src_name, lst, res, exc))
        batch.trace(f"{tid_prefix}/choice/{lst}", evs)
        stats["events"] += len(evs)
    # weighted choice, tiny integer scale: the WHOLE raw range is enumerated
    for ws in TINY_WS:
        evs, picks = [], []
        opts = list(range(1, len(ws) + 1))
        for _, s, res in mk_source_explore(lambda s: s.choice_weighted(opts, [w * 1e-5 for w in ws])):
            exc = exc_name(res) if isinstance(res, Exception) else ""
            raw = s.log[0][2] if s.log else -1
            evs.append(ev_weighted(src_name, ws, res, exc, raw))
            picks.append(res if not exc else 0)
        evs.append({"e": "wsweep", "src": src_name, "ws": ws, "picks": picks})
        batch.trace(f"{tid_prefix}/weighted/{ws}", evs)
        stats["events"] += len(evs)
    # weighted choice, production scale: boundary raw values (wide range -> boundary subset)
    for ws in TINY_WS:
        evs = []
        opts = list(range(1, len(ws) + 1))
        for _, s, res in mk_source_explore(lambda s: s.choice_weighted(opts, [float(w) for w in ws])):
            exc = exc_name(res) if isinstance(res, Exception) else ""
            evs.append(ev_weighted(src_name, ws, res, exc))
        batch.trace(f"{tid_prefix}/weightedP/{ws}", evs)
        stats["events"] += len(evs)
    # fractional weights whose running float sum and exactly rounded sum fall on different sides of a 1e-5 boundary
    # (tenths are not representable); ws in units of 1e-3, boundary raw values
    for ws in FRAC_WS:
        evs = []
        opts = list(range(1, len(ws) + 1))
        for _, s, res in mk_source_explore(lambda s: s.choice_weighted(opts, [w / 1000 for w in ws])):
            exc = exc_name(res) if isinstance(res, Exception) else ""
            evs.append(ev_weighted(src_name, ws, res, exc))
        batch.trace(f"{tid_prefix}/weightedF/{ws}", evs)
        stats["events"] += len(evs)
    # weights below the resolution of the scaled integers: a zero-weight option is still never chosen
    for ws in SUB_WS:
        evs = []
        opts = list(range(1, len(ws) + 1))
        for _, s, res in mk_source_explore(lambda s: s.choice_weighted(opts, [w * 1e-7 for w in ws])):
            exc = exc_name(res) if isinstance(res, Exception) else ""
            evs.append(ev_weighted(src_name, ws, res, exc))
        batch.trace(f"{tid_prefix}/weightedS/{ws}", evs)
        stats["events"] += len(evs)
    # shuffle, pop_random
    for lst in LISTS + [[]]:
        evs = []
        for _, s, res in mk_source_explore(lambda s: s.shuffle(list(lst))):
            exc = exc_name(res) if isinstance(res, Exception) else ""
            evs.append(ev_shuffle(src_name, lst, res if not exc else [], exc))
        batch.trace(f"{tid_prefix}/shuffle/{lst}", evs)
        stats["events"] += len(evs)
    for lst in LISTS:
        evs = []

        def f(s):
            work = list(lst)
            r = s.pop_random(work)
            return (r, work)

        for _, s, res in mk_source_explore(f):
            exc = exc_name(res) if isinstance(res, Exception) else ""
            evs.append(ev_pop(src_name, lst, res[1] if not exc else [], res[0] if not exc else 0, exc))
        for _, s, res in mk_source_explore(lambda s: pop_identity(s, lst)):
            exc = exc_name(res) if isinstance(res, Exception) else ""
            evs.append(ev_pop(src_name, res[2] if not exc else [], res[1] if not exc else [], res[0] if not exc else 0, exc))
        batch.trace(f"{tid_prefix}/pop/{lst}", evs)
        stats["events"] += len(evs)
    evs = []
    for _, s, res in mk_source_explore(lambda s: s.random_bool()):
        exc = exc_name(res) if isinstance(res, Exception) else ""
        evs.append(ev_bool(src_name, res, exc))
    batch.trace(f"{tid_prefix}/bool", evs)
    stats["events"] += len(evs)


def gene_lists(R, tier):
    base = [0, 1, 2, 3, 254, 255, 256, 999, 1000, 1001, 1002, 2 ** 31, 2 ** 31 - 1, MAXS, MAXS - 1, 10000]
    out = [[g] for g in base]
    n = 60 if tier == "quick" else 600
    for _ in range(n):
        k = R.randint(2, 4)
        out.append([R.choice(base + [R.randint(0, MAXS)]) for _ in range(k)])
    return out


def main():
    a = std_args()
    R = rng(a.seed, "c18")
    batch = Batch("C18", {"tier": a.tier, "seed": a.seed})
    stats = {"events": 0}

    # (E) base-class derived primitives over ALL raw draws
    derived_over("Scripted", lambda fn: explore(fn, cap=64), batch, stats, "E/base")

    # (E) deciders' bounded integer draw over all raw draws (boundary subsets on wide ranges)
    # odd and even widths just above the wide-branch threshold, powers of two, and shifted ranges:
    # the wide branch computes from width // 2, so parity and alignment matter
    wide = [(0, w) for w in list(range(1001, 1061)) + [1999, 2000, 2047, 2048, 4095, 8191, 8192, 65535, 65536,
                                                       99999, 100000, 2 ** 20 - 1, 2 ** 31 - 1, 2 ** 31, 2 ** 32 - 1]]
    wide += [(-512, 511), (-512, 512), (-1000, 1), (-1, 1000), (7, 1030), (-2047, 2048), (-(2 ** 31), 2 ** 31 - 1)]
    for bnd in INT_BOUNDS + wide + [None]:
        lo, hi = bnd if bnd is not None else (None, None)
        for dname, mk in (("MaxDepthDecider", lambda s: MaxDepthDecider(s, GRAMMAR, 3)),
                          ("ProgressivelyTerminalDecider", lambda s: ProgressivelyTerminalDecider(s, GRAMMAR))):
            evs = []

            def f(s):
                d = mk(s)
                return d.random_int() if lo is None else d.random_int(lo, hi)

            blo, bhi = (-(MAXS - 1), MAXS) if lo is None else (lo, hi)
            for _, s, res in explore(f, cap=16):
                exc = exc_name(res) if isinstance(res, Exception) else ""
                evs.append(ev_int(dname, "decider_random_int", blo, bhi, res, exc))
            batch.trace(f"E/decider/{dname}/{lo},{hi}", evs)
            stats["events"] += len(evs)

    # (E) dSGE decider integer draw: genes appended on demand come from the scripted source
    for (lo, hi) in INT_BOUNDS:
        evs = []

        def f(s):
            g = dsge.Genotype(s, {})
            d = dsge.DynamicSGEDecider(g, GRAMMAR, max_depth=5)
            return d.random_int(lo, hi)

        for _, s, res in explore(f, cap=16):
            exc = exc_name(res) if isinstance(res, Exception) else ""
            evs.append(ev_int("DynamicSGEDecider", "decider_random_int", lo, hi, res, exc))
        batch.trace(f"E/dsge/{lo},{hi}", evs)
        stats["events"] += len(evs)

    # (T) the gene-backed source that dynamic SGE hands to metahandlers (genes of any size, as mutation writes them)
    if hasattr(dsge, "DynamicSGESource"):
        big = [0, 1, 511, 1023, 1024, 1025, 2047, 2 ** 31, MAXS, MAXS - 1, 10 ** 12 + 7]
        for gi, gene in enumerate(big):
            evs = []
            for (lo, hi) in INT_BOUNDS:
                def mk():
                    gt = dsge.Genotype(NativeRandomSource(1), {int: [gene] * 4, float: [gene] * 4, bool: [gene] * 4})
                    return dsge.DynamicSGESource(dsge.DynamicSGEDecider(gt, GRAMMAR, max_depth=5))
                s = mk()
                r, exc = call(lambda: s.randint(lo, hi))
                evs.append(ev_int("DynamicSGESource", "randint", lo, hi, r, exc))
            for (lo, hi) in [(0.0, 1.0), (-100.0, 100.0), (2.5, 2.5), (9.0, 10.0), (-1e9, 1e9)]:
                s = mk()
                r, exc = call(lambda: s.random_float(lo, hi))
                evs.append(ev_int("DynamicSGESource", "random_float", lo, hi, r, exc, ty=tyname(r)))
            for lst in LISTS:
                s = mk()
                r, exc = call(lambda: s.choice(list(lst)))
                evs.append(ev_choice("DynamicSGESource", lst, r, exc))
            batch.trace(f"T/DynamicSGESource/{gi}", evs)
            stats["events"] += len(evs)

    # (T) gene-backed sources: raw randint for every gene list x bounds, derived primitives on top
    glists = gene_lists(R, a.tier)
    for cname, mk in (("GEListWrapper", lambda dna: GEList(list(dna))),
                      ("StackListWrapper", lambda dna: StackList(list(dna))),
                      ("StructuredListWrapper", lambda dna: StructuredListWrapper({"$infrastructure": list(dna)}))):
        for gi, dna in enumerate(glists):
            evs = []
            s = mk(dna)
            for (lo, hi) in INT_BOUNDS:
                for _ in range(len(dna)):
                    r, exc = call(lambda: s.randint(lo, hi))
                    evs.append(ev_int(cname, "randint", lo, hi, r, exc))
            for (lo, hi) in [(0.0, 1.0), (-100.0, 100.0), (2.5, 2.5), (-1e9, 1e9)] + EQUAL_FLOATS:
                r, exc = call(lambda: s.random_float(lo, hi))
                evs.append(ev_int(cname, "random_float", lo, hi, r, exc, ty=tyname(r)))
            for lst in LISTS:
                r, exc = call(lambda: s.choice(list(lst)))
                evs.append(ev_choice(cname, lst, r, exc))
                work = list(lst)
                r, exc = call(lambda: s.shuffle(work))
                evs.append(ev_shuffle(cname, lst, r if not exc else [], exc))
                work = list(lst)
                r, exc = call(lambda: s.pop_random(work))
                evs.append(ev_pop(cname, lst, work, r, exc))
            for ws in TINY_WS:
                opts = list(range(1, len(ws) + 1))
                r, exc = call(lambda: s.choice_weighted(opts, [float(w) for w in ws]))
                evs.append(ev_weighted(cname, ws, r, exc))
                r, exc = call(lambda: s.choice_weighted(opts, [w * 1e-5 for w in ws]))
                evs.append(ev_weighted(cname, ws, r, exc))
            r, exc = call(lambda: s.random_bool())
            evs.append(ev_bool(cname, r, exc))
            batch.trace(f"T/{cname}/{gi}", evs, {"k": "genes", "n": len(dna)})
            stats["events"] += len(evs)
    # gene-backed weighted choice over the WHOLE raw range: one-gene lists 0..total
    for cname, mk in (("GEListWrapper", lambda dna: GEList(list(dna))),
                      ("StackListWrapper", lambda dna: StackList(list(dna)))):
        for ws in TINY_WS:
            total = sum(ws)
            picks, evs = [], []
            opts = list(range(1, len(ws) + 1))
            for g in range(0, total + 1):
                s = mk([g])
                r, exc = call(lambda: s.choice_weighted(opts, [w * 1e-5 for w in ws]))
                evs.append(ev_weighted(cname, ws, r, exc, g))
                picks.append(r if not exc else 0)
            evs.append({"e": "wsweep", "src": cname, "ws": ws, "picks": picks})
            batch.trace(f"T/{cname}/sweep/{ws}", evs)
            stats["events"] += len(evs)

    # (T) native source: sampled draws over boundary bounds, derived primitives
    nseeds = 6 if a.tier == "quick" else 60
    for k in range(nseeds):
        seed = R.randint(0, 2 ** 31)
        s = NativeRandomSource(seed)
        evs = []
        for (lo, hi) in INT_BOUNDS:
            for _ in range(8):
                r, exc = call(lambda: s.randint(lo, hi))
                evs.append(ev_int("Native", "randint", lo, hi, r, exc))
        for (lo, hi) in [(0.0, 1.0), (-100.0, 100.0), (2.5, 2.5), (-1e300, 1e300), (0.0, 1e-300)] + EQUAL_FLOATS:
            for _ in range(8 if lo != hi else 40):
                r, exc = call(lambda: s.random_float(lo, hi))
                evs.append(ev_int("Native", "random_float", lo, hi, r, exc, ty=tyname(r)))
        for lst in LISTS:
            for _ in range(6):
                r, exc = call(lambda: s.choice(list(lst)))
                evs.append(ev_choice("Native", lst, r, exc))
                work = list(lst)
                r, exc = call(lambda: s.shuffle(work))
                evs.append(ev_shuffle("Native", lst, r if not exc else [], exc))
                work = list(lst)
                r, exc = call(lambda: s.pop_random(work))
                evs.append(ev_pop("Native", lst, work, r, exc))
        for ws in TINY_WS:
            opts = list(range(1, len(ws) + 1))
            for _ in range(12):
                r, exc = call(lambda: s.choice_weighted(opts, [float(w) for w in ws]))
                evs.append(ev_weighted("Native", ws, r, exc))
                r, exc = call(lambda: s.choice_weighted(opts, [w * 1e-5 for w in ws]))
                evs.append(ev_weighted("Native", ws, r, exc))
        for _ in range(8):
            r, exc = call(lambda: s.random_bool())
            evs.append(ev_bool("Native", r, exc))
        batch.trace(f"T/native/{seed}", evs)
        stats["events"] += len(evs)

        # same seed, same stream
        def stream(seed):
            s = NativeRandomSource(seed)
            out = []
            for i in range(40):
                out.append(s.randint(-5, 5 + i))
                out.append(s.random_float(0.0, 1.0))
                out.append(s.choice([3, 1, 4, 1, 5]))
                out.append(s.normalvariate(0.0, 1.0))
                out.append(int(s.random_bool()))
                out.append(s.choice_weighted([1, 2, 3], [0.2, 0.3, 0.5]))
                out.append(s.choice_weighted([1, 2, 3], [0.0, 0.0, 0.0]))      # degenerate weights: still the seeded stream
                out.append(s.choice_weighted([4, 5], [1e-9, 1e-9]))
                out.append(sum(x * (10 ** j) for j, x in enumerate(s.shuffle([1, 2, 3, 4]))))
            return out
        sa, sb = stream(seed), stream(seed)
        rk = ranks(sa + sb)
        batch.trace(f"T/stream/{seed}", [{"e": "stream", "a": rk[: len(sa)], "b": rk[len(sa):]}])
        stats["events"] += 1

    # gene-backed sources over the same genes produce the same stream - also when two of them are alive and draw in turns
    from geneticengine.random.sources import NativeRandomSource as _N
    _gs = _N(77)
    genes = [_gs.randint(0, MAXS) for _ in range(24)]
    for cname, mk in (("GEListWrapper", lambda: GEList(list(genes))),
                      ("StackListWrapper", lambda: StackList(list(genes))),
                      ("StructuredListWrapper", lambda: StructuredListWrapper({"$infrastructure": list(genes), "k2": list(genes)}))):
        def draws(s, n):
            return [s.randint(0, 9 + i) for i in range(n)]
        alone = draws(mk(), 12)
        s1, s2 = mk(), mk()
        turn1, turn2 = [], []
        for i in range(12):
            turn1.append(s1.randint(0, 9 + i))
            turn2.append(s2.randint(0, 9 + i))
        s3 = mk()
        first = [s3.randint(0, 9 + i) for i in range(6)]
        mk()                                     # constructing another source must not rewind this one
        rest = [s3.randint(0, 9 + i) for i in range(6, 12)]
        for tag, got in (("interleaved-1", turn1), ("interleaved-2", turn2), ("after-another-was-built", first + rest)):
            batch.trace(f"T/genestream/{cname}/{tag}", [{"e": "stream", "a": alone, "b": got}])
            stats["events"] += 1
    paths = batch.shards(a.out, a.shards)
    write_summary(a.out, {"batches": paths, "traces": len(batch.traces), "events": stats["events"]})


if __name__ == "__main__":
    main()
