"""Driver for C12 / C13 / C14: real tracker sessions and real searches, recorded as SEARCH events.

(R) TLC-generated fitness histories (Gen_Search) are replayed through the real trackers (direct
    sessions with every batch partition shape) and through real RandomSearch / OnePlusOne / HC /
    GeneticProgramming runs with a scripted fitness function;
(T) the recorded events are validated by TLC against GEEvaluation / GEAlgorithms (Trace_Search).
"""
from __future__ import annotations

import argparse
import json
import os
import sys
import tempfile

from harness.common import Batch, rng, write_summary, exc_name, time_limit, HangTimeout
from harness.search_common import (INF_TOKEN, iv, TransientFailure, ProbeRep, FitnessProbe, RecordingBudget, Observer, Ids, Stalled, make_rep,
                                   search_grammar, prog_value, icomps)

from geneticengine.algorithms.random_search import RandomSearch
from geneticengine.algorithms.one_plus_one import OnePlusOne
from geneticengine.algorithms.hill_climbing import HC
from geneticengine.algorithms.gp.gp import GeneticProgramming, default_generic_programming_step
from geneticengine.algorithms.gp.operators.combinators import ParallelStep, SequenceStep, ExclusiveParallelStep
from geneticengine.algorithms.gp.operators.crossover import GenericCrossoverStep
from geneticengine.algorithms.gp.operators.elitism import ElitismStep
from geneticengine.algorithms.gp.operators.mutation import GenericMutationStep
from geneticengine.algorithms.gp.operators.novelty import NoveltyStep
from geneticengine.algorithms.gp.operators.selection import TournamentSelection
from geneticengine.algorithms.gp.adaptive import AdaptiveGeneticProgramming  # noqa: E402
from geneticengine.algorithms.gp.parameterless import InitiallyRandomGeneticProgramming, AlwaysRandomGeneticProgramming  # noqa: E402
from geneticengine.evaluation.budget import TargetMultiFitness, TargetMultiSameFitness, TimeBudget  # noqa: E402
from geneticengine.evaluation.budget import EvaluationBudget, TargetFitness, AnyOf
from geneticengine.evaluation.sequential import SequentialEvaluator
from geneticengine.evaluation.parallel import ParallelEvaluator
from geneticengine.evaluation.tracker import SingleObjectiveProgressTracker, MultiObjectiveProgressTracker
from geneticengine.problems import SingleObjectiveProblem, MultiObjectiveProblem
from geneticengine.random.sources import NativeRandomSource
from geneticengine.solutions.individual import Individual


def make_problem(ff, mini, multi):
    if multi:
        if len(set(mini)) == 1:
            # all components go the same way: declare it the lazy way, with ONE bool (the list is built at the first evaluation)
            return MultiObjectiveProblem(minimize=bool(mini[0]), fitness_function=ff)
        return MultiObjectiveProblem(minimize=list(mini), fitness_function=ff)
    return SingleObjectiveProblem(fitness_function=ff, minimize=mini[0])


_TRACKERS_MADE = [0]


def make_tracker(problem, multi, evaluator, recorders):
    cls = MultiObjectiveProgressTracker if multi else SingleObjectiveProgressTracker
    _TRACKERS_MADE[0] += 1
    if isinstance(evaluator, SequentialEvaluator) and _TRACKERS_MADE[0] % 2 == 0:
        # every other tracker is built the way a user attaches recorders: without naming an evaluator; all searches of
        # this driver run in ONE process, so whatever such trackers share would carry over from search to search
        return cls(problem, recorders=recorders)
    return cls(problem, evaluator, recorders=recorders)


def base_cfg(mini, multi, alg, fb=1, b=1, n=0, budget="none", evaluator="seq"):
    return {"k": "search", "mini": [bool(m) for m in mini], "multi": bool(multi), "alg": alg, "fb": fb, "b": b,
            "n": n, "budget": budget, "evaluator": evaluator}


def direct_session(R, hist, mini, multi, shape, repkind, fail_at=()):
    """feed a tracker with batches; the k-th fitness invocation returns hist[k]; invocations listed in fail_at raise"""
    events = []
    ids = Ids()
    rs = NativeRandomSource(R.randint(0, 10 ** 6))
    rep = make_rep(repkind, rs)
    ff = FitnessProbe(events, "scripted", hist, single=not multi)
    ff.fail_at = tuple(fail_at)
    if R.random() < 0.3:
        import numpy as _np
        ff.conv = R.choice([_np.uint8, _np.uint16, _np.int16])
    problem = make_problem(ff, mini, multi)
    tracker = make_tracker(problem, multi, SequentialEvaluator(), [Observer(events, ids)])
    fresh = [Individual(rep.create_genotype(rs), rep) for _ in hist]
    presented = []
    i = 0
    while i < len(fresh):
        if shape == "singles":
            k = 1
        elif shape == "one":
            k = len(fresh)
        else:
            k = R.randint(1, 3)
        batch = fresh[i:i + k]
        i += k
        if shape == "mixed" and presented and R.random() < 0.6:
            # re-present already evaluated individuals in between (elitism / selection do this)
            for _ in range(R.randint(1, 2)):
                batch.insert(R.randint(0, len(batch)), R.choice(presented))
        if shape == "mixed" and R.random() < 0.5:
            # evaluate one member through the evaluator BEFORE the tracker sees it (selection steps do this)
            tracker.evaluator.evaluate(problem, [R.choice(batch)])
        events.append({"e": "present", "ids": [ids.of(x) for x in batch]})
        try:
            tracker.evaluate(batch)
        except TransientFailure:
            pass        # the caller survives the fault and looks at the tracker: what was evaluated before it counts
        if multi:
            fr = tracker.get_best_individuals()
            bagg = iv(fr[0].get_fitness(problem).maximizing_aggregate) if fr else -2147483647
        else:
            bi = tracker.get_best_individual()
            bagg = iv(bi.get_fitness(problem).maximizing_aggregate) if bi is not None else -2147483647
        events.append({"e": "endpresent", "ids": [ids.of(x) for x in batch], "bestagg": bagg})
        presented += [x for x in batch if x not in presented]
    return events, base_cfg(mini, multi, "direct")


from geneticengine.algorithms.gp.operators.evaluation import EvaluateStep  # noqa: E402


GP_STEPS = {
    "default": lambda: default_generic_programming_step(),
    "sel-mut": lambda: SequenceStep(TournamentSelection(2), GenericMutationStep(1.0)),
    "mut-sel": lambda: SequenceStep(GenericMutationStep(1.0), TournamentSelection(2, with_replacement=True)),
    "elite-novel": lambda: ParallelStep([ElitismStep(), NoveltyStep()], [1, 1]),
    "elite-xo-mut": lambda: ParallelStep([ElitismStep(), SequenceStep(TournamentSelection(3), GenericCrossoverStep(1.0),
                                                                      GenericMutationStep(0.5))], [1, 3]),
    "excl": lambda: ExclusiveParallelStep([ElitismStep(), GenericMutationStep(1.0)], [1, 2]),
    # a composition that ENDS in the crossover: nothing after it trims what it yields
    "sel-xo": lambda: SequenceStep(TournamentSelection(2), GenericCrossoverStep(1.0)),
    "elite-only": lambda: ElitismStep(),
    # variation first, then a step that evaluates the offspring through the evaluator and keeps ALL of them
    "mut-elite": lambda: SequenceStep(GenericMutationStep(1.0), ElitismStep()),
    "mut-eval": lambda: SequenceStep(GenericMutationStep(1.0), EvaluateStep()),
}


_SHARED_BUDGETS = {}


def algorithm_run(R, alg, hist, mode, mini, multi, budget_kind, n, repkind, gp_step="default", pop=4, k=3,
                  target=None, share=None):
    """share: a key; searches run with the same key are given ONE AND THE SAME budget object (a loop over seeds with one
    budget, CooperativeGP handing one budget to every GP it creates)"""
    events = []
    ids = Ids()
    rs = NativeRandomSource(R.randint(0, 10 ** 6))
    rep = make_rep(repkind, rs)
    ff = FitnessProbe(events, mode, hist, single=not multi)
    if R.random() < 0.3:
        import numpy as _np
        ff.conv = R.choice([_np.uint8, _np.uint16, _np.int16])
    problem = make_problem(ff, mini, multi)
    tracker = make_tracker(problem, multi, SequentialEvaluator(), [Observer(events, ids)])
    if budget_kind == "eval":
        inner = EvaluationBudget(n)
    elif budget_kind == "target":
        inner = TargetFitness(target)
    elif budget_kind == "time":
        # virtual time: the tracker's clock advances by one second per fitness invocation (patched below), so a
        # time budget of n - 0.5 seconds is met exactly when n invocations have been made
        inner = TimeBudget(n - 0.5)
    elif budget_kind == "mtarget":      # multi-objective targets, one per component; in a disjunction so that runs end
        inner = AnyOf(TargetMultiFitness([float(t) for t in target]), EvaluationBudget(n))
    elif budget_kind == "msame":
        inner = AnyOf(TargetMultiSameFitness(float(target[0])), EvaluationBudget(n))
    else:
        inner = AnyOf(TargetFitness(target), EvaluationBudget(n))
    if share is not None:
        inner = _SHARED_BUDGETS.setdefault(share, inner)
    if budget_kind in ("mtarget", "msame"):
        budget = RecordingBudget(inner, events, ffcount=lambda: ff.k, mtargets=[float(t) for t in target])
    else:
        budget = RecordingBudget(inner, events, target=target, ffcount=lambda: ff.k)
    if alg == "SGP":
        # the "simple API" of the repository (geml.simplegp.SimpleGP): it builds problem, budget, step and tracker itself;
        # its budget is wrapped by the recording delegate and an observer is added to its tracker after construction
        from geml.simplegp import SimpleGP
        from harness.search_common import TokenTreeRep, search_grammar
        from geneticengine.representations.tree.initializations import MaxDepthDecider
        sgp = SimpleGP(ff, search_grammar(), minimize=bool(mini[0]),
                       target_fitness=(target if budget_kind == "anyof" else None), max_time=10 ** 9, max_evaluations=n,
                       seed=R.randint(0, 10 ** 6), population_size=pop, elitism=1 if pop > 2 else 0,
                       novelty=1 if pop > 2 else 0, max_depth=4)
        a = sgp.gp
        a.representation = TokenTreeRep(a.representation.grammar, MaxDepthDecider(a.random, a.representation.grammar, 4))
        problem, tracker = sgp.problem, a.tracker
        tracker.recorders.append(Observer(events, ids))
        a.budget = RecordingBudget(a.budget, events, target=(target if budget_kind == "anyof" else None), ffcount=lambda: ff.k)
        fb = b = pop
    elif alg == "RS":
        a = RandomSearch(problem, budget, rep, rs, tracker)
        fb = b = 1
    elif alg == "OPO":
        a = OnePlusOne(problem, budget, rep, rs, tracker)
        fb = b = 1
    elif alg == "HC":
        a = HC(problem, budget, rep, rs, tracker, number_of_mutations=k)
        fb, b = 1, k
    elif alg in ("IRGP", "ARGP"):
        # GP with random configurations (set once / regenerated every generation); time-driven initialisation as above
        a = {"IRGP": InitiallyRandomGeneticProgramming, "ARGP": AlwaysRandomGeneticProgramming}[alg](problem, budget, rep, rs, tracker)
        fb = b = 1001 + 10
    elif alg == "AGP":
        # the self-adjusting GP: population size, operator probabilities and step weights change while it runs; its
        # initialisation is time-driven, so it runs on a virtual clock (0.1 s per fitness invocation)
        a = AdaptiveGeneticProgramming(problem, budget, rep, rs, tracker)
        fb = b = 1001 + 10
    else:
        a = GeneticProgramming(problem, budget, rep, rs, tracker, population_size=pop, step=GP_STEPS[gp_step]())
        fb = b = pop
    cfg = base_cfg(mini, multi, alg, fb, b, n, budget_kind)
    cfg["step"] = gp_step if alg == "GP" else "-"
    import geneticengine.evaluation.tracker as _trk
    real_clock = _trk.monotonic_ns
    if budget_kind == "time":
        tracker.start_time = 0
        _trk.monotonic_ns = lambda: ff.k * 10 ** 9
    elif alg in ("AGP", "IRGP", "ARGP"):
        tracker.start_time = 0
        _trk.monotonic_ns = lambda: ff.k * 10 ** 8
    try:
        with time_limit(20):
            r = a.search()
        events.append({"e": "ret", "ind": ids.of(r), "count": tracker.get_number_evaluations()})
    except Stalled:
        pass
    except HangTimeout:
        events.append({"e": "lasso", "checks": 0, "ffs": 1})
    except Exception as e:          # a search given a valid budget must not raise
        events.append({"e": "runfail", "exc": type(e).__name__})
    finally:
        _trk.monotonic_ns = real_clock
    return events, cfg


def evaluator_sessions(R, batch, tier, stats):
    """both evaluators on identical populations (mixed evaluated/new, duplicates, singletons);
    fitness is determined by the program and logged to an O_APPEND file (works across pathos workers)"""
    nses = 12 if tier == "quick" else 120
    table = [[3], [1], [4], [1], [5], [9], [2], [6], [5], [3], [5], [8]]
    table2 = [[a[0], (a[0] * 7 + 3) % 5] for a in table]
    for sidx in range(nses):
        multi = sidx % 3 == 2
        mini = [R.random() < 0.5, R.random() < 0.5][: 2 if multi else 1]
        tab = table2 if multi else table
        rs = NativeRandomSource(R.randint(0, 10 ** 6))
        g = search_grammar()
        from geneticengine.representations.tree.treebased import TreeBasedRepresentation
        from geneticengine.representations.tree.initializations import MaxDepthDecider
        rep = TreeBasedRepresentation(g, MaxDepthDecider(rs, g, 3))
        fd, logpath = tempfile.mkstemp(prefix="fflog", dir=os.environ.get("VERIF_TMP", None))
        os.close(fd)

        numkind = 5 if (multi and sidx % 2 == 0) else sidx % 5
        _buf = []

        def ff(prog, logpath=logpath, tab=tab, multi=multi, numkind=numkind, _buf=_buf):
            v = prog_value(prog)
            ret = tab[v % len(tab)]
            # a value-dependent delay perturbs the completion order of pool workers
            import time as _t
            _t.sleep(0.03 * ((7 - v) % 4))
            with open(logpath, "a") as f:
                f.write(json.dumps({"v": v, "ret": ret, "pid": os.getpid()}) + "\n")
            # fitness functions often hand back numpy scalars (counts, pixel errors): unsigned, narrow or boolean-like
            import numpy as _np
            if numkind == 5:
                # a callback that reuses ONE buffer list for its answer (plain floats): what is recorded for an individual
                # must not change when the next one is evaluated
                _buf[:] = [float(x) for x in ret]
                return _buf if multi else _buf[0]
            conv = [float, _np.uint8, _np.int64, _np.float32, int][numkind]
            return [conv(x) for x in ret] if multi else conv(ret[0])

        problem = make_problem(ff, mini, multi)
        size = R.choice([1, 2, 3, 5])
        genos = [rep.create_genotype(rs) for _ in range(size)]
        evs = []
        stores = []
        # the same fitness FUNCTION OBJECT under the opposite directions: a different problem, evaluated on its own
        mini2 = [not m for m in mini]
        problem2 = make_problem(ff, mini2, multi)

        def do_call(evaluator, evname, prob, pmini, pop, ids, fresh_problem=False):
            open(logpath, "w").close()
            before = evaluator.number_of_evaluations()
            had = [{"id": ids.of(x), "v": prog_value(x.get_phenotype()), "had": x.has_fitness(prob),
                    "hadcomps": icomps(x.get_fitness(prob).fitness_components) if x.has_fitness(prob) else []}
                   for x in pop]
            exc = ""
            yielded = []
            try:
                with time_limit(120):
                    for y in evaluator.evaluate_async(prob, pop):
                        yielded.append(ids.of(y))
            except Exception as e:
                exc = exc_name(e)
            with open(logpath) as f:
                calls = [json.loads(l) for l in f if l.strip()]
            after = []
            for x in pop:
                if x.has_fitness(prob):
                    fx = x.get_fitness(prob)
                    after.append({"id": ids.of(x), "has": True, "comps": icomps(fx.fitness_components),
                                  "agg": iv(fx.maximizing_aggregate)})
                else:
                    after.append({"id": ids.of(x), "has": False, "comps": [], "agg": 0})
            evs.append({"e": "evalcall", "evaluator": evname, "inds": had, "after": after, "exc": exc,
                        "count_before": before, "count_after": evaluator.number_of_evaluations(),
                        "ffcalls": [{"v": c["v"], "ret": c["ret"]} for c in calls], "yielded": yielded,
                        "npids": len({c["pid"] for c in calls}), "mini": [bool(m) for m in pmini],
                        # what the DRIVER knows: this problem object was created a moment ago and never evaluated anything
                        "fresh_problem": bool(fresh_problem)})
            return [a["comps"] for a in after]

        for evname in ("seq", "par"):
            evaluator = SequentialEvaluator() if evname == "seq" else ParallelEvaluator()
            inds = [Individual(gt, rep) for gt in genos]
            ids = Ids()
            # pre-evaluate some members with a throw-away sequential evaluator (also the only member of a singleton)
            pre = [i for i in range(size) if (sidx + i) % 3 == 0]
            for i in pre:
                SequentialEvaluator().evaluate(problem, [inds[i]])
            # present a duplicate object when the population has room for it
            pop = list(inds)
            if size >= 3 and sidx % 2 == 0:
                pop.append(inds[1])
            stores.append(do_call(evaluator, evname, problem, mini, pop, ids))
            # everything is evaluated now: re-presented alone or together, nobody is evaluated again
            do_call(evaluator, evname, problem, mini, [inds[sidx % size]], ids)
            if sidx % 2:
                do_call(evaluator, evname, problem, mini, list(reversed(pop)), ids)
            # the twin problem has its own fitness for the same individuals
            do_call(evaluator, evname, problem2, mini2, list(inds), ids)
            do_call(evaluator, evname, problem2, mini2, [inds[0]], ids)
        # individuals scored under a problem that is then DROPPED; a new problem (this session's fitness function) that lands on
        # the dead one's address has no fitness for them yet: they are evaluated, and what is stored is its own values
        tab4 = [[(x + 1) * 2 for x in row] for row in tab]

        def ff4(prog, tab4=tab4, multi=multi):
            row = tab4[prog_value(prog) % len(tab4)]
            return [float(x) for x in row] if multi else float(row[0])
        inds4 = [Individual(gt, rep) for gt in genos]
        p4 = make_problem(ff4, mini, multi)
        SequentialEvaluator().evaluate(p4, inds4)
        addr = id(p4)
        del p4
        import gc as _gc
        _gc.collect()           # (a multi-objective problem sits in a reference cycle with its own closures)
        hold, p5 = [], None
        for _ in range(40):
            cand = make_problem(ff, mini, multi)
            if id(cand) == addr:
                p5 = cand
                break
            hold.append(cand)
        if p5 is None:
            p5 = hold[-1]
        do_call(SequentialEvaluator(), "seq", p5, mini, inds4 + [inds4[0]], Ids(), fresh_problem=True)
        del hold
        if multi:
            # a LAZY problem (one bool for all components) whose very first evaluation is made by the pool
            lazy = bool(sidx % 2)
            problem3 = MultiObjectiveProblem(minimize=lazy, fitness_function=ff)
            fresh = [Individual(gt, rep) for gt in genos]
            do_call(ParallelEvaluator(), "par", problem3, [lazy, lazy], fresh + ([fresh[0]] if size > 1 else []), Ids())
        evs.append({"e": "evalpair", "seq": stores[0], "par": stores[1]})
        os.remove(logpath)
        cfg = base_cfg(mini, multi, "direct", evaluator="both")
        cfg["table"] = tab
        batch.trace(f"evaluators/{sidx}", evs, cfg)
        stats["events"] += len(evs)


def main():
    ap = argparse.ArgumentParser()
    ap.add_argument("--out", required=True)
    ap.add_argument("--tier", default="quick")
    ap.add_argument("--seed", type=int, default=0)
    ap.add_argument("--shards", type=int, default=1)
    ap.add_argument("--prop", default=os.environ.get("VERIF_PROP", "C12"))
    ap.add_argument("--gen", default=os.environ.get("VERIF_GEN", ""))
    a = ap.parse_args()
    R = rng(a.seed, "search")
    batch = Batch(a.prop, {"tier": a.tier, "seed": a.seed, "prop": a.prop})
    stats = {"events": 0}
    with open(a.gen) as f:
        gen = json.load(f)
    H1, H2 = gen["single"], gen["multi"]
    quick = a.tier == "quick"

    # direct tracker sessions on TLC-generated histories
    shapes = ["singles", "one", "parts", "mixed"]
    hs1 = H1 if not quick else [h for i, h in enumerate(H1) if i % 2 == 0 or len(h) <= 3]
    hs2 = H2 if not quick else [h for i, h in enumerate(H2) if i % 3 == 0 or len(h) <= 2]
    for hi, h in enumerate(hs1):
        for mini in ([False], [True]):
            shape = shapes[(hi + int(mini[0])) % 4]
            ev, cfg = direct_session(R, h, mini, False, shape, "tree" if hi % 5 else "ge")
            batch.trace(f"direct1/{hi}/{int(mini[0])}/{shape}", ev, cfg)
            stats["events"] += len(ev)
    for hi, h in enumerate(hs2):
        mini = [bool(hi % 2), bool((hi // 2) % 2)]
        shape = shapes[hi % 4]
        ev, cfg = direct_session(R, h, mini, True, shape, "tree")
        batch.trace(f"direct2/{hi}/{shape}", ev, cfg)
        stats["events"] += len(ev)

    # histories that begin with infinitely bad values (the usual fitness of an invalid program), or contain infinities
    INF = INF_TOKEN
    for hi, (h, mi) in enumerate([([INF, INF, 5, 7, 5, 3], True), ([-INF, -INF, 5, 7, 9], False), ([INF, INF, INF], True),
                                  ([5, INF, 3, -INF, 3], True), ([-INF, 4, INF, 2], False), ([INF, 5], False), ([-INF, 5], True)]):
        for shape in shapes:
            ev, cfg = direct_session(R, [[x] for x in h], [mi], False, shape, "tree")
            batch.trace(f"directinf/{hi}/{shape}", ev, cfg)
            stats["events"] += len(ev)
        for alg in ("RS", "HC", "GP"):
            ev, cfg = algorithm_run(R, alg, [[x] for x in h], "scripted", [mi], False, "eval", len(h) + 2, "tree", pop=3, k=2)
            batch.trace(f"run/inf/{hi}/{alg}", ev, cfg)
            stats["events"] += len(ev)

    # large magnitudes: a strict improvement is an improvement however small it is relative to the values
    BIG = 1900000000
    for hi, (h, mi) in enumerate([([BIG, BIG + 1, BIG + 2, BIG + 1, BIG + 3], False), ([BIG + 3, BIG + 2, BIG + 2, BIG + 1], True),
                                  ([-BIG, -BIG + 1, -BIG + 2], False), ([BIG, BIG - 1, BIG + 1, BIG - 2], True)]):
        for shape in shapes:
            ev, cfg = direct_session(R, [[x] for x in h], [mi], False, shape, "tree")
            batch.trace(f"directbig/{hi}/{shape}", ev, cfg)
            stats["events"] += len(ev)
        ev, cfg = algorithm_run(R, "RS", [[x] for x in h], "scripted", [mi], False, "eval", len(h), "tree")
        batch.trace(f"run/big/{hi}/RS", ev, cfg)
        stats["events"] += len(ev)
    # a fitness function that fails in the middle of a batch: whatever was evaluated before the fault is known to the tracker
    for hi, h in enumerate([h for h in H1 if len(h) >= 3][: (12 if quick else 80)]):
        for shape in ("one", "parts"):
            fa = (R.randint(1, len(h) - 1),)
            ev, cfg = direct_session(R, h, [bool(hi % 2)], False, shape, "tree", fail_at=fa)
            batch.trace(f"directfault/{hi}/{shape}/{fa[0]}", ev, cfg)
            stats["events"] += len(ev)

    # algorithm runs
    nruns = 120 if quick else 1500
    algs = ["RS", "OPO", "HC", "GP"]
    steps = [s for s in GP_STEPS if s != "elite-only"]
    for ri in range(nruns):
        alg = algs[ri % 4]
        multi = (ri % 7 == 6)
        mini = [R.random() < 0.5, R.random() < 0.5][: 2 if multi else 1]
        h = R.choice(H2 if multi else H1)
        h = [h[R.randrange(len(h))] for _ in range(R.randint(3, 9))] if R.random() < 0.5 else h
        mode = "scripted" if ri % 3 else "table"
        if mode == "table" and not multi:
            h = [[x] for x in (5, 1, 9, 3, 11, 7, 2, 12, 4, 10, 6, 8)]
        bk = "eval" if multi else ["eval", "time", "target", "anyof"][ri % 4 if ri % 8 < 4 else (ri // 8) % 2]
        n = R.randint(1, 12 if quick else 40)
        target = R.choice([1, 2, 3]) if bk != "eval" else None
        if bk == "target":
            # a pure target budget terminates only when the BEST hits the target: use the optimum of the
            # scripted history as the target so that it is reached when it first comes back
            vals = [x[0] for x in h]
            target = min(vals) if mini[0] else max(vals)
            mode = "scripted"
        if multi:
            bk = ["eval", "mtarget", "msame"][(ri // 7) % 3]
            if bk == "mtarget":
                target = list(R.choice(h))                      # a vector the history really contains
            elif bk == "msame":
                target = [R.choice(h)[0]] * 2
        ev, cfg = algorithm_run(R, alg, h, mode, mini, multi, bk, n, "tree" if ri % 3 else "ge",
                                gp_step=steps[(ri // 4) % len(steps)], pop=R.choice([2, 3, 4, 5, 8]), k=R.choice([1, 3, 5]),
                                target=target)
        batch.trace(f"run/{ri}/{alg}/{bk}/{cfg['step']}", ev, cfg)
        stats["events"] += len(ev)

    # every GP step composition for several generations (the sampled runs above often stop inside generation 0)
    for si, stepname in enumerate(steps):
        for pop in (3, 5):
            for mi in (False, True):
                h = [[x] for x in (5, 1, 9, 3, 11, 7, 2, 12, 4, 10, 6, 8)]
                ev, cfg = algorithm_run(R, "GP", h, "table", [mi], False, "eval", pop * (4 if quick else 9), "ge" if (si + pop) % 2 else "tree",
                                        gp_step=stepname, pop=pop)
                batch.trace(f"run/gens/{stepname}/{pop}/{int(mi)}", ev, cfg)
                stats["events"] += len(ev)
            # budgets that a generation boundary misses by one: the window "fewer than n + population size" is tight there
            for nn in (pop + 1, 2 * pop + 2, 3 * pop + 1):
                ev, cfg = algorithm_run(R, "GP", [[x] for x in (5, 1, 9, 3, 11, 7, 2, 12, 4, 10, 6, 8)], "table", [False], False, "eval", nn,
                                        "tree" if (si + pop) % 2 else "ge", gp_step=stepname, pop=pop)
                batch.trace(f"run/gens/{stepname}/{pop}/n{nn}", ev, cfg)
                stats["events"] += len(ev)

    # fractional targets against integer-valued fitness: the tolerance of a target budget is ABSOLUTE (1e-4) - a best
    # fitness 5e-5 away from the target meets it, one 0.05 away does not, whatever the magnitude of the target
    for i, (val, off) in enumerate([(1000, 0.05), (1000, 0.00005), (0, 0.00005), (0, 0.05), (-5000, 0.2), (-5000, -0.00005),
                                    (1000, -0.05), (7, 0.00009)]):
        for alg in ("RS", "HC", "OPO", "GP"):
            if quick and (i + len(alg)) % 2:
                continue
            mini_t = val <= 0          # the near value must be the BEST one seen: it is the extreme of its history
            h = [[x] for x in ((val + 9, val + 4, val, val + 5, val + 1, val) if mini_t else (3, val - 4, val, 5, val - 1, val))]
            ev, cfg = algorithm_run(R, alg, h, "scripted", [mini_t], False, "anyof", 9, "tree",
                                    gp_step="default", pop=3, k=2, target=val + off)
            batch.trace(f"run/fractarget/{i}/{alg}", ev, cfg)
            stats["events"] += len(ev)

    # ONE budget object serving two searches in a row: the first is ended by one member of the disjunction, the second by the other
    for i, alg in enumerate(("RS", "GP", "HC", "OPO")):
        for order in (0, 1):
            key = f"shared/{i}/{order}"
            far = [[x] for x in (5, 1, 9, 3, 11, 7, 2, 12, 4, 10, 6, 8)]         # never reaches the target 500
            hit = [[x] for x in (500, 1, 9, 500, 3, 500, 2, 500, 4, 500, 6, 500)]  # reaches it at once
            for j, h in enumerate((far, hit) if order == 0 else (hit, far)):
                ev, cfg = algorithm_run(R, alg, h, "scripted", [False], False, "anyof", 7, "tree", pop=3, k=2, target=500, share=key)
                batch.trace(f"run/shared/{alg}/{order}/{j}", ev, cfg)
                stats["events"] += len(ev)

    # the repository's simple API; target 0 is the natural "stop when solved" configuration
    for i in range(8 if quick else 48):
        mi = bool(i % 2)
        bk = "anyof" if i % 4 < 2 else "eval"
        tv = [0, 0, 3, 12][i % 4]
        h = [[x] for x in ((5, 1, 9, 3, 0, 7, 2, 12, 4, 10, 6, 8) if i % 3 else (5, 1, 9, 3, 11, 7, 2, 12, 4, 10, 6, 8))]
        ev, cfg = algorithm_run(R, "SGP", h, "table", [mi], False, bk, R.randint(8, 30), "tree", pop=R.choice([3, 5, 8]),
                                target=tv if bk == "anyof" else None)
        batch.trace(f"run/sgp/{i}/{bk}", ev, cfg)
        stats["events"] += len(ev)

    # the self-adjusting GP variant
    for i in range(12 if quick else 90):
        mi = bool(i % 2)
        bk = ["eval", "anyof", "eval"][i % 3]
        h = [[x] for x in (5, 1, 9, 3, 11, 7, 2, 12, 4, 10, 6, 8)]
        variant = ["AGP", "IRGP", "ARGP"][(i // 2) % 3]
        ev, cfg = algorithm_run(R, variant, h, "table", [mi], False, bk, R.randint(5, 40 if quick else 150),
                                "tree" if i % 2 else "ge", target=R.choice([1, 12, 6]) if bk == "anyof" else None)
        batch.trace(f"run/{variant.lower()}/{i}/{bk}", ev, cfg)
        stats["events"] += len(ev)

    if a.prop == "C14":
        # step compositions that never emit a fresh individual: the counter cannot move (open finding)
        for pop in (2, 3):
            ev, cfg = algorithm_run(R, "GP", H1[5], "scripted", [False], False, "eval", pop + 3, "tree",
                                    gp_step="elite-only", pop=pop)
            batch.trace(f"run/nofresh/{pop}", ev, cfg)
            stats["events"] += len(ev)
    if a.prop == "C13":
        evaluator_sessions(R, batch, a.tier, stats)

    paths = batch.shards(a.out, a.shards)
    write_summary(a.out, {"batches": paths, "traces": len(batch.traces), "events": stats["events"]})


if __name__ == "__main__":
    main()
