"""C19 driver: weighted hierarchies extracted 1-3 times; weight-aware choosers through all raw draws."""
from __future__ import annotations

import argparse

from harness.common import Batch, rng, write_summary, exc_name, time_limit
from harness import grammars as GR
from harness.proj import declared_grammar, impl_grammar, finalize
from harness.sources import explore, ScriptedSource

from geneticengine.grammar.grammar import extract_grammar
from geneticengine.solutions.tree import LocalSynthesisContext
from geneticengine.representations.tree.initializations import ProgressivelyTerminalDecider
from geneticengine.representations.stackgggp import ListWrapper as StackList

FEATS = [
    {"intrange", "weights", "nested_abstract"},
    {"intrange", "int", "weights", "concrete_ref", "sizedlist"},
    {"intrange", "weights", "nested_abstract", "union", "unreachable"},
]


def one(spec, R, batch, stats, considered_mode):
    b = GR.build(spec)
    try:
        decl = b.oracle()     # declared weights, before any extraction
        start = b.start
        if considered_mode == "nested-start":
            # the grammar is extracted FROM a nested abstract type: its parent (and so the rule that lists it next to its
            # siblings) is registered as well, and that rule is subject to the same clauses
            nested = [c["name"] for c in spec["classes"] if c["abstract"] and c["parent"]]
            if not nested:
                return
            start = b.classes[nested[0]]
            decl["start"] = nested[0]
            considered = [c for c in b.classes.values() if c is not start]
        else:
            considered = b.considered if considered_mode == "all-classes" else \
                [c for c in b.considered if not any(x["name"] == c.__name__ and x["abstract"] for x in spec["classes"])]
        evs = []
        g = None
        prev_exact = None
        for k in range(1, 4):
            try:
                with time_limit(10):
                    g = extract_grammar(considered, start)
                exact = {str(t): repr(float(w)) for t, w in g.get_weights().items()}      # to the last bit
                evs.append({"e": "weights", "k": k, "exc": "", "impl": impl_grammar(g),
                            "exact_same": prev_exact is None or exact == prev_exact})
                prev_exact = exact
            except Exception as e:
                evs.append({"e": "weights", "k": k, "exc": exc_name(e), "impl": {"expd": False}, "exact_same": True})
        if g is not None:
            weights = g.get_weights()
            for nt, alts in g.alternatives.items():
                ws = [int(round(weights.get(a, 1.0) * 10000)) for a in alts]
                names = [a.__name__ for a in alts]
                if len(alts) < 2:
                    continue
                # ProgressivelyTerminalDecider at several depths, every raw outcome (boundary subset on wide ranges)
                for depth in (0, 1, 3, 8):
                    def run(src, depth=depth):
                        d = ProgressivelyTerminalDecider(src, g)
                        return d.choose_production_alternatives(nt, list(alts), LocalSynthesisContext(depth, 0, 1, {}))
                    for script, src, res in explore(run, cap=8, max_leaves=64):
                        if isinstance(res, Exception):
                            evs.append({"e": "choose", "chooser": "ProgressivelyTerminalDecider", "options": names, "ws": ws,
                                        "chosen": 1, "exc": exc_name(res)})
                        else:
                            evs.append({"e": "choose", "chooser": "ProgressivelyTerminalDecider", "options": names, "ws": ws,
                                        "chosen": alts.index(res) + 1, "exc": ""})
                # the plain weighted choice the stack representation makes, over gene values at the bucket edges
                total = sum(int(w * 100000) for w in [weights.get(a, 1.0) for a in alts])
                for gene in sorted({0, 1, total - 1, total, total + 1, 2 * total, 2 * total + 1, 12345}):
                    if gene < 0:
                        continue
                    src = StackList([0, gene])
                    try:
                        res = src.choice_weighted(list(alts), [weights.get(a, 1.0) for a in alts])
                        evs.append({"e": "choose", "chooser": "stack-choice_weighted", "options": names, "ws": ws,
                                    "chosen": alts.index(res) + 1, "exc": ""})
                    except Exception as e:
                        evs.append({"e": "choose", "chooser": "stack-choice_weighted", "options": names, "ws": ws,
                                    "chosen": 1, "exc": exc_name(e)})
        # whole programs built by the weight-aware machines (stack mapping, progressively-terminal creation): which
        # classes occur in them.  Only where every class-typed field is of an ABSTRACT type, so that every class in a
        # program got there through a weighted choice.
        # ... ROOT abstract types only: a field declared with a nested abstract type reaches that type's productions without
        # passing the (possibly zero) weight the nested type carries as a production of its own parent
        abstract_names = {c["name"] for c in spec["classes"] if c["abstract"] and not c["parent"]}

        def syms(f):
            if f[0] == "sym":
                return [f[1]]
            if f[0] in ("list", "ann"):
                return syms(f[1])
            if f[0] in ("tuple", "union"):
                return [x for y in f[1] for x in syms(y)]
            return []
        only_abstract = all(sy in abstract_names for c in spec["classes"] for _, f in c["fields"] for sy in syms(f))
        if g is not None and only_abstract and spec["start"] in abstract_names and considered_mode != "nested-start":
            from geneticengine.random.sources import NativeRandomSource
            from geneticengine.representations.stackgggp import StackBasedGGGPRepresentation
            from geneticengine.representations.tree.treebased import TreeBasedRepresentation

            def classes_in(v, acc):
                if isinstance(v, (list, tuple)):
                    for x in v:
                        classes_in(x, acc)
                elif type(v).__name__ in b.classes:
                    acc.add(type(v).__name__)
                    for fn in getattr(v, "__dataclass_fields__", {}):
                        classes_in(getattr(v, fn), acc)
                return acc
            rs = NativeRandomSource(R.randint(0, 10 ** 6))
            for machine, rep in (("stack-mapping", StackBasedGGGPRepresentation(g, gene_length=200)),
                                 ("pt-creation", TreeBasedRepresentation(g, ProgressivelyTerminalDecider(rs, g)))):
                for _ in range(25):
                    try:
                        with time_limit(5):
                            ph = rep.genotype_to_phenotype(rep.create_genotype(rs))
                    except Exception:
                        continue            # an exhausted stack genome is not this property's business
                    evs.append({"e": "prog", "machine": machine, "classes": sorted(classes_in(ph, set()))})
        batch.trace(f"{spec['id']}/{considered_mode}", evs, {"k": "c19", "g": decl, "considered": considered_mode})
        stats["events"] += len(evs)
    finally:
        b.dispose()


def one_staged(spec, R, batch, stats):
    """a history: the classes are first used in a SMALLER grammar (one weighted production left out, as when a library of
    component classes is shared by several grammars), then the whole grammar is extracted; the whole grammar's weights are
    subject to the same clauses, with the weights the user declared on the classes"""
    leaves = [c["name"] for c in spec["classes"] if not c["abstract"] and c["parent"]
              and not any(x["parent"] == c["name"] for x in spec["classes"])]
    if len(leaves) < 3:
        return
    b = GR.build(spec)
    try:
        decl = b.oracle()
        left_out = leaves[R.randrange(len(leaves))]
        if b.classes[left_out] is b.start:
            return
        subset = [c for c in b.considered if c.__name__ != left_out]
        try:
            with time_limit(10):
                extract_grammar(subset, b.start)
        except Exception:
            return          # the smaller grammar is not extractable (a required production is missing): no history
        evs = []
        try:
            with time_limit(10):
                g = extract_grammar(b.considered, b.start)
            evs.append({"e": "weights", "k": 1, "exc": "", "impl": impl_grammar(g), "exact_same": True})
        except Exception as e:
            evs.append({"e": "weights", "k": 1, "exc": exc_name(e), "impl": {"expd": False}, "exact_same": True})
        batch.trace(f"{spec['id']}/staged", evs, {"k": "c19", "g": decl, "considered": "after-a-smaller-grammar"})
        stats["events"] += len(evs)
    finally:
        b.dispose()


def one_raw(raw, R, batch, stats):
    """a raw-source grammar with weights: whole programs created by the progressively-terminal decider (productions whose
    refinement fails while they are built make create_node retry with the remaining alternatives)"""
    from geneticengine.random.sources import NativeRandomSource
    from geneticengine.representations.tree.treebased import TreeBasedRepresentation
    b = GR.build_raw(raw)
    try:
        decl = b.oracle()
        evs = []
        g = None
        try:
            with time_limit(10):
                g = extract_grammar(b.considered, b.start)
            evs.append({"e": "weights", "k": 1, "exc": "", "impl": impl_grammar(g), "exact_same": True})
        except Exception as e:
            evs.append({"e": "weights", "k": 1, "exc": exc_name(e), "impl": {"expd": False}, "exact_same": True})
        if g is not None:
            def classes_in(v, acc):
                if isinstance(v, (list, tuple)):
                    for x in v:
                        classes_in(x, acc)
                elif type(v).__name__ in b.classes:
                    acc.add(type(v).__name__)
                    for fn in getattr(v, "__dataclass_fields__", {}):
                        classes_in(getattr(v, fn), acc)
                return acc
            rs = NativeRandomSource(R.randint(0, 10 ** 6))
            rep = TreeBasedRepresentation(g, ProgressivelyTerminalDecider(rs, g))
            for _ in range(60):
                try:
                    with time_limit(5):
                        ph = rep.genotype_to_phenotype(rep.create_genotype(rs))
                except Exception:
                    continue
                evs.append({"e": "prog", "machine": "pt-creation", "classes": sorted(classes_in(ph, set()))})
        batch.trace(f"{raw['id']}/raw", evs, {"k": "c19", "g": decl, "considered": "all-classes"})
        stats["events"] += len(evs)
    finally:
        b.dispose()


W_FIXED = [
    {"id": "w-fractions", "start": "E", "classes": [
        {"name": "E", "parent": "", "abstract": True, "fields": []},
        {"name": "Op", "parent": "E", "abstract": True, "fields": [], "style": "decorator", "weight": 2},
        {"name": "Lit", "parent": "E", "abstract": False, "fields": [], "weight": 1},
        {"name": "Var", "parent": "E", "abstract": False, "fields": []},
        {"name": "Add", "parent": "Op", "abstract": False, "fields": [("l", ("sym", "E"))], "weight": 0.1},
        {"name": "Mul", "parent": "Op", "abstract": False, "fields": [("l", ("sym", "E"))], "weight": 0.3},
        {"name": "Off", "parent": "Op", "abstract": False, "fields": [("l", ("sym", "E"))], "weight": 0}]},
    {"id": "w-nested-below", "start": "E", "classes": [           # @abstract stacked ABOVE @weight on a nested abstract type
        {"name": "E", "parent": "", "abstract": True, "fields": []},
        {"name": "Compound", "parent": "E", "abstract": True, "fields": [], "style": "decorator", "weight": 6,
         "weight_below_abstract": True},
        {"name": "Lit", "parent": "E", "abstract": False, "fields": [], "weight": 2},
        {"name": "Var", "parent": "E", "abstract": False, "fields": []},
        {"name": "Add", "parent": "Compound", "abstract": False, "fields": [("l", ("sym", "E"))]},
        {"name": "Mul", "parent": "Compound", "abstract": False, "fields": [("l", ("sym", "E"))], "weight": 3}]},
    {"id": "w-single", "start": "E", "classes": [
        {"name": "E", "parent": "", "abstract": True, "fields": []},
        {"name": "U", "parent": "", "abstract": True, "fields": []},
        {"name": "Leaf", "parent": "E", "abstract": False, "fields": [("u", ("sym", "U"))]},
        {"name": "Only", "parent": "U", "abstract": False, "fields": [], "weight": 0.25}]},
    {"id": "w-deepest", "start": "E", "classes": [
        {"name": "E", "parent": "", "abstract": True, "fields": []},
        {"name": "ZeroLeaf", "parent": "E", "abstract": False, "fields": [], "weight": 0},
        {"name": "Mid", "parent": "", "abstract": False, "fields": [("v", ("ann", ("base", "int"), ("IntRange", 0, 1)))]},
        {"name": "DeepLeaf", "parent": "E", "abstract": False, "fields": [("m", ("sym", "Mid")), ("n", ("sym", "Mid"))], "weight": 3},
        {"name": "Rec", "parent": "E", "abstract": False, "fields": [("e", ("sym", "E"))], "weight": 2}]},
    {"id": "w-flat", "start": "E", "classes": [
        {"name": "E", "parent": "", "abstract": True, "fields": []},
        {"name": "Zero", "parent": "E", "abstract": False, "fields": [], "weight": 0},
        {"name": "One", "parent": "E", "abstract": False, "fields": [("v", ("ann", ("base", "int"), ("IntRange", 0, 1)))], "weight": 1},
        {"name": "Rec", "parent": "E", "abstract": False, "fields": [("e", ("sym", "E"))], "weight": 6},
        {"name": "Plain", "parent": "E", "abstract": False, "fields": [("e", ("sym", "E")), ("f", ("sym", "E"))]}]},
    {"id": "w-nested", "start": "E", "classes": [
        {"name": "E", "parent": "", "abstract": True, "fields": []},
        {"name": "M", "parent": "E", "abstract": True, "fields": [], "weight": 2, "style": "decorator"},
        {"name": "L", "parent": "E", "abstract": False, "fields": []},
        {"name": "M1", "parent": "M", "abstract": False, "fields": [], "weight": 0},
        {"name": "M2", "parent": "M", "abstract": False, "fields": [("e", ("sym", "E"))], "weight": 0.5},
        {"name": "M3", "parent": "M", "abstract": False, "fields": [("e", ("sym", "E"))]}]},
    {"id": "w-allrec", "start": "E", "classes": [
        {"name": "E", "parent": "", "abstract": True, "fields": []},
        {"name": "T", "parent": "", "abstract": True, "fields": []},
        {"name": "ZeroFirst", "parent": "E", "abstract": False, "fields": [("t", ("sym", "T")), ("e", ("sym", "E"))], "weight": 0},
        {"name": "Wrap", "parent": "E", "abstract": False, "fields": [("t", ("sym", "T"))], "weight": 3},
        {"name": "TL", "parent": "T", "abstract": False, "fields": []},
        {"name": "TE", "parent": "T", "abstract": False, "fields": [("e", ("sym", "E"))], "weight": 2}]},
]


def main():
    ap = argparse.ArgumentParser()
    ap.add_argument("--out", required=True)
    ap.add_argument("--tier", default="quick")
    ap.add_argument("--seed", type=int, default=0)
    ap.add_argument("--shards", type=int, default=1)
    a = ap.parse_args()
    R = rng(a.seed, "c19")
    batch = Batch("C19", {"tier": a.tier, "seed": a.seed, "prop": "C19"})
    stats = {"events": 0}
    quick = a.tier == "quick"
    specs = [dict(s) for s in W_FIXED] + GR.family(R, 60 if quick else 1200, FEATS)
    for i, spec in enumerate(specs):
        one(spec, R, batch, stats, "all-classes")
        if i % 3 == 0:
            one(spec, R, batch, stats, "concrete-classes-only")
        if i % 2 == 0 or i < len(W_FIXED):
            one(spec, R, batch, stats, "nested-start")
    for i, spec in enumerate(specs):
        if i < len(W_FIXED) or i % 2 == 0:
            one_staged(spec, R, batch, stats)
    for raw in GR.RAW_WEIGHTED:
        one_raw(raw, R, batch, stats)
    batch.traces = finalize(batch.traces)
    paths = batch.shards(a.out, a.shards)
    write_summary(a.out, {"batches": paths, "traces": len(batch.traces), "events": stats["events"]})


if __name__ == "__main__":
    main()
