"""Advisory: the order wrap_depth_minimization induces on programs, against the order of the wrapped problem."""
from __future__ import annotations

import argparse

from harness.common import Batch, rng, write_summary, ranks
from harness.search_common import search_grammar

from geneticengine.problems import SingleObjectiveProblem, wrap_depth_minimization
from geneticengine.random.sources import NativeRandomSource
from geneticengine.representations.tree.initializations import MaxDepthDecider
from geneticengine.representations.tree.treebased import TreeBasedRepresentation


def main():
    ap = argparse.ArgumentParser()
    ap.add_argument("--out", required=True)
    ap.add_argument("--tier", default="quick")
    ap.add_argument("--seed", type=int, default=0)
    ap.add_argument("--shards", type=int, default=1)
    ap.add_argument("--prop", default="C13")
    ap.add_argument("--gen", default="")
    a = ap.parse_args()
    R = rng(a.seed, "wrap")
    batch = Batch("C13", {"tier": a.tier, "seed": a.seed, "prop": "C13"})
    nev = 0
    rs = NativeRandomSource(R.randint(0, 10 ** 6))
    g = search_grammar()
    rep = TreeBasedRepresentation(g, MaxDepthDecider(rs, g, 4))
    progs = [rep.genotype_to_phenotype(rep.create_genotype(rs)) for _ in range(12 if a.tier == "quick" else 40)]
    table = {id(p): float(R.choice([0, 0, 1, 2, 5])) for p in progs}
    for mini in (False, True):
        p = SingleObjectiveProblem(lambda x: table[id(x)], minimize=mini)
        w = wrap_depth_minimization(p)
        evs = []
        for x in progs:
            for y in progs:
                if x is y:
                    continue
                fx, fy = p.evaluate(x), p.evaluate(y)
                wx, wy = w.evaluate(x), w.evaluate(y)
                r = ranks([table[id(x)], table[id(y)]])
                evs.append({"e": "pair", "fa": r[0], "fb": r[1], "da": int(x.gengy_distance_to_term),
                            "db": int(y.gengy_distance_to_term), "orig_a": bool(p.is_better(fx, fy)),
                            "orig_b": bool(p.is_better(fy, fx)), "wrap_a": bool(w.is_better(wx, wy)),
                            "wrap_b": bool(w.is_better(wy, wx))})
        batch.trace(f"wrap/{int(mini)}", evs, {"k": "wrap", "mini": mini})
        nev += len(evs)
    paths = batch.shards(a.out, a.shards)
    write_summary(a.out, {"batches": paths, "traces": len(batch.traces), "events": nev})


if __name__ == "__main__":
    main()
