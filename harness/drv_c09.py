"""C09 driver: structural snapshots of every input object before / after operators and steps, and of the whole
registry of objects ever seen at regular intervals and at the end of the trace."""
from __future__ import annotations

import argparse

from harness.common import Batch, rng, write_summary, ranks, time_limit
from harness import grammars as GR
from harness.proj import term_of, finalize, F
from harness.search_common import Ids, icomps

from geneticengine.algorithms.gp.gp import GeneticProgramming, default_generic_programming_step
from geneticengine.algorithms.gp.operators.combinators import ParallelStep, SequenceStep, ExclusiveParallelStep
from geneticengine.algorithms.gp.operators.crossover import GenericCrossoverStep
from geneticengine.algorithms.gp.operators.elitism import ElitismStep
from geneticengine.algorithms.gp.operators.mutation import GenericMutationStep
from geneticengine.algorithms.gp.operators.novelty import NoveltyStep
from geneticengine.algorithms.gp.operators.selection import TournamentSelection, LexicaseSelection
from geneticengine.evaluation.sequential import SequentialEvaluator
from geneticengine.grammar.grammar import extract_grammar
from geneticengine.problems import SingleObjectiveProblem, MultiObjectiveProblem
from geneticengine.random.sources import NativeRandomSource
from geneticengine.representations.tree.treebased import TreeBasedRepresentation
from geneticengine.representations.tree.initializations import MaxDepthDecider
from geneticengine.representations.grammatical_evolution.ge import GrammaticalEvolutionRepresentation
from geneticengine.representations.grammatical_evolution.structured_ge import StructuredGrammaticalEvolutionRepresentation
from geneticengine.representations.grammatical_evolution.dynamic_structured_ge import (
    DynamicStructuredGrammaticalEvolutionRepresentation)
from geneticengine.representations.stackgggp import StackBasedGGGPRepresentation
from geneticengine.solutions.individual import Individual

EMPTY_T = {"k": "val", "ty": "none", "iv": 0, "cs": [], "kids": [], "m": {"has": False}}


class Registry:
    """every object ever seen, numbered by first appearance, strong references held"""

    def __init__(self, problems):
        self.ids = Ids()
        self.problems = problems
        self.keys = []            # common key order for structured genotypes

    def geno_snapshot(self, g):
        if hasattr(g, "dna"):
            d = g.dna
            if isinstance(d, dict):
                for k in d:
                    if not any(k is q or k == q for q in self.keys):
                        self.keys.append(k)
                genes = [{"has": any(k is q or k == q for q in d), "g": [B(x) for x in d.get(k, [])]} for k in self.keys]
                return "struct", EMPTY_T, genes
            return "linear", EMPTY_T, [{"has": True, "g": [B(x) for x in d]}]
        return "tree", term_of(g, meta=True), []

    def snap(self, obj):
        if isinstance(obj, Individual):
            kind, t, genes = self.geno_snapshot(obj.genotype)
            fits = []
            for pi, p in enumerate(self.problems):
                if obj.has_fitness(p):
                    fits.append({"p": pi, "comps": [F(c) for c in obj.get_fitness(p).fitness_components]})
            return {"id": self.ids.of(obj), "kind": "ind-" + kind, "t": t, "genes": genes, "fits": fits,
                    "ph": obj.phenotype is not None, "gid": self.ids.of(obj.genotype)}
        kind, t, genes = self.geno_snapshot(obj)
        return {"id": self.ids.of(obj), "kind": kind, "t": t, "genes": genes, "fits": [], "ph": False, "gid": 0}

    def all_objects(self):
        return list(self.ids.objs)


class B(F):
    """a gene: compared by equality only, rank-encoded with the floats of the batch"""


def pad_genes(events):
    """structured genotypes seen early have fewer keys than later ones: pad to the final key count"""
    n = 0
    for e in events:
        for o in e.get("objs", []):
            n = max(n, len(o["genes"])) if o["kind"].endswith("struct") else n
    for e in events:
        for o in e.get("objs", []):
            if o["kind"].endswith("struct"):
                o["genes"] += [{"has": False, "g": []}] * (n - len(o["genes"]))


def make_rep(kind, g, rs, d):
    if kind == "tree":
        return TreeBasedRepresentation(g, MaxDepthDecider(rs, g, d))
    if kind == "ge":
        return GrammaticalEvolutionRepresentation(g, MaxDepthDecider(rs, g, d), gene_length=24)
    if kind == "sge":
        return StructuredGrammaticalEvolutionRepresentation(g, MaxDepthDecider(rs, g, d), gene_length=8)
    if kind == "dsge":
        return DynamicStructuredGrammaticalEvolutionRepresentation(g, d)
    return StackBasedGGGPRepresentation(g, gene_length=128)


def value_of(p):
    from harness.proj import term_key
    return sum(ord(c) for c in term_key(term_of(p))) % 7


STEPS = [
    # a selection step handed the population list itself (not behind a combinator that copies it)
    ("elitism-direct", lambda: ElitismStep()),
    ("novelty-elitism", lambda: ParallelStep([NoveltyStep(), ElitismStep()], [1, 1])),
    ("default", lambda: default_generic_programming_step()),
    ("sel-xo-mut", lambda: SequenceStep(TournamentSelection(2), GenericCrossoverStep(1.0), GenericMutationStep(1.0))),
    ("par-elite-mut-novel", lambda: ParallelStep([ElitismStep(), GenericMutationStep(1.0), NoveltyStep()], [1, 2, 1])),
    ("xpar-xo-mut", lambda: ExclusiveParallelStep([GenericCrossoverStep(1.0), GenericMutationStep(1.0)], [1, 1])),
    ("mut-sel", lambda: SequenceStep(GenericMutationStep(1.0), TournamentSelection(3, with_replacement=True))),
]


def operator_trace(R, spec, repkind, quick):
    b = GR.build(spec)
    try:
        g = extract_grammar(b.considered, b.start)
        d = int(g.get_min_tree_depth()) + 2
        rs = NativeRandomSource(R.randint(0, 10 ** 6))
        rep = make_rep(repkind, g, rs, d)
        reg = Registry([])
        evs = []
        pool = []
        for _ in range(4):
            try:
                gt = rep.create_genotype(rs)
                rep.genotype_to_phenotype(gt)           # dSGE fills its genes while mapping
                pool.append(gt)
            except Exception:
                pass
        if len(pool) < 2:
            return None
        evs.append({"e": "snap", "op": "created", "objs": [reg.snap(x) for x in pool]})
        nops = 12 if quick else 60
        for i in range(nops):
            a, c = pool[R.randrange(len(pool))], pool[R.randrange(len(pool))]
            try:
                with time_limit(10):
                    if i % 2 == 0:
                        out = list(rep.crossover(rs, a, c))
                        op = "crossover"
                    else:
                        out = [rep.mutate(rs, a)]
                        op = "mutate"
                    for x in out:
                        try:
                            rep.genotype_to_phenotype(x)   # offspring are mapped (evaluated) like in a search
                        except Exception:
                            pass
            except Exception:
                continue
            evs.append({"e": "snap", "op": op, "objs": [reg.snap(a), reg.snap(c)] + [reg.snap(x) for x in out]})
            pool += out
            if (i + 1) % 10 == 0:
                evs.append({"e": "snap", "op": "registry", "objs": [reg.snap(x) for x in reg.all_objects()]})
        evs.append({"e": "snap", "op": "registry-final", "objs": [reg.snap(x) for x in reg.all_objects()]})
        pad_genes(evs)
        return evs, {"k": "c09", "rep": repkind, "what": "operators"}
    finally:
        b.dispose()


def step_trace(R, spec, repkind, stepname, mkstep, quick, multi=False, nan=False, parallel=False):
    b = GR.build(spec)
    try:
        g = extract_grammar(b.considered, b.start)
        d = int(g.get_min_tree_depth()) + 2
        rs = NativeRandomSource(R.randint(0, 10 ** 6))
        rep = make_rep(repkind, g, rs, d)
        if multi and nan:
            # an objective that is undefined (NaN) for some programs
            problem = MultiObjectiveProblem([False, True], lambda p: [float(value_of(p)),
                                                                     float("nan") if value_of(p) % 3 == 0 else float(value_of(p) % 5)])
        elif multi:
            problem = MultiObjectiveProblem([False, True], lambda p: [float(value_of(p)), float(value_of(p) % 3)])
        else:
            problem = SingleObjectiveProblem(lambda p: float(value_of(p)))
        evaluator = SequentialEvaluator()
        if parallel:
            from geneticengine.evaluation.parallel import ParallelEvaluator
            evaluator = ParallelEvaluator()
        # a second problem nobody is scored with until the driver scores brand-new offspring with it
        probe = SingleObjectiveProblem(lambda p: float(value_of(p) % 7))
        reg = Registry([problem, probe])
        n = 6
        pop = []
        while len(pop) < n:
            try:
                ind = Individual(rep.create_genotype(rs), rep)
                evaluator.evaluate(problem, [ind])
                pop.append(ind)
            except Exception:
                if len(pop) == 0 and rs.randint(0, 50) == 0:
                    return None
        if nan:     # individuals with an undefined objective go last (the selection is known to raise when one comes first)
            pop.sort(key=lambda x: any(c != c for c in x.get_fitness(problem).fitness_components))
        evs = [{"e": "snap", "op": "initial", "objs": [reg.snap(x) for x in pop]}]
        step = mkstep()
        gens = 10 if quick else 40
        for gi in range(gens):
            given = list(pop)               # the list object the step receives
            order_before = [reg.ids.of(x) for x in given]
            known = set(reg.ids.map)
            try:
                with time_limit(30):
                    new = list(step.apply(problem, evaluator, rep, rs, given, n, gi + 1))
                    evaluator.evaluate(problem, new)
                    # offspring objects nobody has seen before are scored with the second problem as well: that must
                    # leave every other object as it was
                    SequentialEvaluator().evaluate(probe, [x for x in new if id(x) not in known])
            except Exception:
                break
            evs.append({"e": "given", "op": stepname, "before": order_before, "after": [reg.ids.of(x) for x in given]})
            evs.append({"e": "snap", "op": stepname, "objs": [reg.snap(x) for x in pop] + [reg.snap(x) for x in new],
                        "evald": [0] + [reg.ids.of(x) for x in new]})
            pop = new
            if (gi + 1) % 10 == 0:
                evs.append({"e": "snap", "op": "registry", "objs": [reg.snap(x) for x in reg.all_objects()]})
        evs.append({"e": "snap", "op": "registry-final", "objs": [reg.snap(x) for x in reg.all_objects()]})
        pad_genes(evs)
        return evs, {"k": "c09", "rep": repkind, "what": stepname}
    finally:
        b.dispose()


def main():
    ap = argparse.ArgumentParser()
    ap.add_argument("--out", required=True)
    ap.add_argument("--tier", default="quick")
    ap.add_argument("--seed", type=int, default=0)
    ap.add_argument("--shards", type=int, default=1)
    a = ap.parse_args()
    R = rng(a.seed, "c09")
    batch = Batch("C09", {"tier": a.tier, "seed": a.seed, "prop": "C09"})
    nev = 0
    quick = a.tier == "quick"
    fixed = {s["id"]: s for s in GR.fixed_specs()}
    gids = ["arith", "sizedlist", "concstart", "mutual", "bases"] if quick else list(fixed)
    reps = ["tree", "ge", "sge", "dsge", "stack"]
    for gid in gids:
        for rk in reps:
            for rpt in range(1 if quick else 4):
                r = operator_trace(R, fixed[gid], rk, quick)
                if r:
                    batch.trace(f"ops/{gid}/{rk}/{rpt}", r[0], r[1])
                    nev += len(r[0])
    for gi, gid in enumerate(gids):
        for ri, rk in enumerate(reps):
            for si, (sname, mk) in enumerate(STEPS):
                if quick and (gi + ri + si) % 3:
                    continue
                r = step_trace(R, fixed[gid], rk, sname, mk, quick)
                if r:
                    batch.trace(f"steps/{gid}/{rk}/{sname}", r[0], r[1])
                    nev += len(r[0])
        r = step_trace(R, fixed[gid], "tree", "lexicase-mut",
                       lambda: SequenceStep(LexicaseSelection(), GenericMutationStep(1.0)), quick, multi=True)
        if r:
            batch.trace(f"steps/{gid}/tree/lexicase-mut", r[0], r[1])
            nev += len(r[0])
        for eps in (False, True):
            r = step_trace(R, fixed[gid], "tree", "lexicase-nan",
                           lambda: LexicaseSelection(epsilon=eps), quick, multi=True, nan=True)
            if r:
                batch.trace(f"steps/{gid}/tree/lexicase-nan/{int(eps)}", r[0], r[1])
                nev += len(r[0])
    batch.traces = finalize(batch.traces)
    paths = batch.shards(a.out, a.shards)
    write_summary(a.out, {"batches": paths, "traces": len(batch.traces), "events": nev})


if __name__ == "__main__":
    main()
