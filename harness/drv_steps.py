"""Driver for C15 / C16 / C17 (and the step half of C09): real step objects applied to real populations.

(R) TLC-enumerated step compositions (Gen_Steps) are instantiated with the REAL combinators and
    Probe-wrapped REAL leaves and applied to real evaluated populations given as list / Population /
    one-shot iterator; events carry lengths only, TLC (Trace_Steps) judges them.
(E) tournament and lexicase selection are driven through ALL outcomes of their random draws for small
    populations by a scripted source; every outcome is one trace.
"""
from __future__ import annotations

import argparse
import json
import os

from harness.common import Batch, rng, write_summary, exc_name, time_limit, HangTimeout
from dataclasses import dataclass
from geneticengine.grammar.grammar import extract_grammar
from harness.search_common import Ids, make_rep, search_grammar, prog_value, icomps, SLeaf, SPlus, SRoot
from harness.sources import ScriptedSource, explore, RecordingSource, Exhausted

from geneticengine.algorithms.gp.gp import GeneticProgramming, default_generic_programming_step
from geneticengine.algorithms.gp.population import Population
from geneticengine.algorithms.gp.structure import GeneticStep
from geneticengine.algorithms.gp.operators.combinators import ParallelStep, SequenceStep, ExclusiveParallelStep, IdentityStep
from geneticengine.algorithms.gp.operators.crossover import GenericCrossoverStep
from geneticengine.algorithms.gp.operators.elitism import ElitismStep
from geneticengine.algorithms.gp.operators.mutation import GenericMutationStep
from geneticengine.algorithms.gp.operators.novelty import NoveltyStep
from geneticengine.algorithms.gp.operators.evaluation import EvaluateStep
from geneticengine.algorithms.gp.operators.selection import TournamentSelection, LexicaseSelection
from geneticengine.algorithms.gp.operators.initializers import StandardInitializer, HalfAndHalfInitializer
from geneticengine.representations.common import GenericPopulationInitializer
from geneticengine.representations.tree.operators import (FullInitializer, GrowInitializer,
                                                           PositionIndependentGrowInitializer,
                                                           RampedHalfAndHalfInitializer, InjectInitialPopulationWrapper)
from geneticengine.evaluation.budget import EvaluationBudget
from geneticengine.evaluation.recorder import SearchRecorder
from geneticengine.evaluation.sequential import SequentialEvaluator
from geneticengine.evaluation.tracker import SingleObjectiveProgressTracker, MultiObjectiveProgressTracker
from geneticengine.problems import SingleObjectiveProblem, MultiObjectiveProblem
from geneticengine.random.sources import NativeRandomSource
from geneticengine.representations.tree.treebased import TreeBasedRepresentation
from geneticengine.representations.tree.initializations import MaxDepthDecider
from geneticengine.solutions.individual import Individual

TABLE = [5, 1, 9, 3, 11, 7, 2, 12, 4, 10, 6, 8]


def fit1(p):
    return float(TABLE[prog_value(p) % 12])


def fit2(p):
    v = prog_value(p)
    return [float(TABLE[v % 12] % 4), float((v * 5 + 1) % 3)]


class Probe(GeneticStep):
    """wraps a real step; logs how many individuals it was given, asked for and yielded"""

    def __init__(self, inner, kind, path, log):
        self.inner = inner
        self.kind = kind
        self.path = path
        self.log = log

    def iterate(self, problem, evaluator, representation, random, population, target_size, generation):
        if isinstance(population, list):
            in_kind, items = "list", population
            passed = population
        elif isinstance(population, Population):
            in_kind, items = "Population", list(population)
            passed = population
        else:
            in_kind, items = "iterator", list(population)
            passed = iter(items)
        ev = {"e": "step", "path": self.path, "kind": self.kind, "in_kind": in_kind, "in_len": len(items),
              "k": target_size, "out_len": 0, "complete": False, "exc": ""}
        self.log.append(ev)
        try:
            for x in self.inner.apply(problem, evaluator, representation, random, passed, target_size, generation):
                ev["out_len"] += 1
                yield x
            ev["complete"] = True
        except Exception as e:
            ev["exc"] = exc_name(e)
            raise


def build_step(tree, log, path="s"):
    k = tree["k"]
    if k in ("seq", "par", "xpar"):
        subs = [build_step(t, log, f"{path}.{i}") for i, t in enumerate(tree["subs"])]
        if k == "seq":
            inner = SequenceStep(*subs)
        elif k == "par":
            inner = ParallelStep(subs, [float(w) for w in tree["ws"]])
        else:
            inner = ExclusiveParallelStep(subs, [float(w) for w in tree["ws"]])
    else:
        inner = {"elitism": ElitismStep, "novelty": NoveltyStep, "identity": IdentityStep, "evaluate": EvaluateStep,
                 "tournament": lambda: TournamentSelection(2), "mutation": lambda: GenericMutationStep(1.0),
                 "crossover": lambda: GenericCrossoverStep(1.0), "lexicase": lambda: LexicaseSelection()}[k]()
    return Probe(inner, k, path, log)


@dataclass(unsafe_hash=True)
class SInner:
    e: SRoot


@dataclass(unsafe_hash=True)
class SBox:
    """a concrete start symbol two levels above the leaves: the smallest program is three levels deep"""
    inner: SInner


class Env:
    def __init__(self, seed, multi=False, deep=False):
        self.rs = NativeRandomSource(seed)
        g = extract_grammar([SLeaf, SPlus, SInner], SBox) if deep else search_grammar()
        self.depth = 5 if deep else 3
        self.rep = TreeBasedRepresentation(g, MaxDepthDecider(self.rs, g, self.depth))
        self.multi = multi
        self.problem = MultiObjectiveProblem([False, True], fit2) if multi else SingleObjectiveProblem(fit1)
        self.evaluator = SequentialEvaluator()

    def population(self, n):
        inds = [Individual(self.rep.create_genotype(self.rs), self.rep) for _ in range(n)]
        self.evaluator.evaluate(self.problem, inds)
        return inds


def as_form(inds, form, env):
    if form == "list":
        return list(inds)
    if form == "iterator":
        return iter(list(inds))
    tracker = (MultiObjectiveProgressTracker if env.multi else SingleObjectiveProgressTracker)(env.problem, env.evaluator)
    return Population(iter(list(inds)), tracker, 0)


def apply_config(R, tree, n, form, seed, again=()):
    """apply ONE step object to a population of n; `again` lists further sizes the same object is then
    applied with (a step object lives for a whole run and may be reused across runs)"""
    env = Env(seed)
    log = []
    step = build_step(tree, log)
    evs = []
    for gi, size in enumerate((n,) + tuple(again)):
        pop = env.population(size)
        top = {"e": "apply", "in_kind": form, "in_len": size, "k": size, "out_len": 0, "exc": "", "complete": False}
        try:
            with time_limit(20):
                out = list(step.apply(env.problem, env.evaluator, env.rep, env.rs, as_form(pop, form, env), size, gi + 1))
            top["out_len"] = len(out)
            top["complete"] = True
        except Exception as e:
            top["exc"] = exc_name(e)
        evs += log + [top]
        del log[:]
    return evs, {"k": "steps", "tree": tree, "n": n}


class GenObserver(SearchRecorder):
    def __init__(self):
        self.per_gen = {}

    def register(self, tracker, individual, problem, is_best):
        g = individual.metadata.get("generation", -1)
        self.per_gen[g] = self.per_gen.get(g, 0) + 1


def gp_run(R, tree, n, gens, seed, initializer=None, init_name="standard"):
    env = Env(seed)
    log = []
    step = build_step(tree, log)
    obs = GenObserver()
    tracker = SingleObjectiveProgressTracker(env.problem, env.evaluator, recorders=[obs])

    class GenBudget(EvaluationBudget):
        def __init__(self):
            self.checks = 0

        def is_done(self, tr):
            self.checks += 1
            return self.checks > gens

    a = GeneticProgramming(env.problem, GenBudget(), env.rep, env.rs, tracker, population_size=n, step=step,
                           population_initializer=initializer)
    exc = ""
    try:
        with time_limit(30):
            a.search()
    except Exception as e:
        exc = exc_name(e)
    evs = [{"e": "generation", "g": g, "size": s, "n": n} for g, s in sorted(obs.per_gen.items())]
    if exc:
        evs.append({"e": "runfail", "exc": exc})
    return log + evs, {"k": "gp", "tree": tree, "n": n, "init": init_name}


def simplegp_run(R, n, elitism, novelty, gens, seed, selection=("tournament", 3), inject=0):
    """the repository's simple API builds its own step from (population_size, elitism, novelty): every generation of a
    SimpleGP run has the configured size too"""
    from geml.simplegp import SimpleGP
    g = search_grammar()
    obs = GenObserver()
    exc = ""
    try:
        initial = None
        if inject:
            rs0 = NativeRandomSource(seed + 1)
            rep0 = TreeBasedRepresentation(g, MaxDepthDecider(rs0, g, 3))
            initial = [rep0.create_genotype(rs0) for _ in range(inject)]
        sgp = SimpleGP(fit1, g, minimize=bool(seed % 2), max_depth=3, max_time=10 ** 9, max_evaluations=10 ** 9, seed=seed,
                       population_size=n, elitism=elitism, novelty=novelty, selection_method=selection,
                       initial_population=initial)
        sgp.gp.tracker.recorders.append(obs)

        class GenBudget(EvaluationBudget):
            def __init__(self):
                self.checks = 0

            def is_done(self, tr):
                self.checks += 1
                return self.checks > gens
        sgp.gp.budget = GenBudget()
        with time_limit(30):
            sgp.search()
    except Exception as e:
        exc = exc_name(e)
    evs = [{"e": "generation", "g": gg, "size": sz, "n": n} for gg, sz in sorted(obs.per_gen.items())]
    if exc:
        evs.append({"e": "runfail", "exc": exc})
    return evs, {"k": "gp", "tree": {"k": "simplegp", "subs": [], "ws": [elitism, novelty]}, "n": n, "init": f"inject{inject}"}


def initializer_events(R, seed):
    """every initialiser asked for k; injected initial populations of every length 0..k+2"""
    evs = []
    for deep in (False, True):
        env = Env(seed, deep=deep)
        evs += _initializer_events(env, "@min-depth-3" if deep else "")
    return evs


def _initializer_events(env, suffix):
    evs = []
    D = env.depth
    inits = {
        "standard": lambda: StandardInitializer(),
        "generic": lambda: GenericPopulationInitializer(),
        "full": lambda: FullInitializer(D),
        "grow": lambda: GrowInitializer(),
        "pigrow": lambda: PositionIndependentGrowInitializer(D),
        "ramped": lambda: RampedHalfAndHalfInitializer(D),
        "halfandhalf": lambda: HalfAndHalfInitializer(FullInitializer(D), GrowInitializer()),
    }
    for name, mk in inits.items():
        for k in (1, 2, 3, 5, 8):
            ev = {"e": "init", "kind": name + suffix, "injected": -1, "k": k, "out_len": 0, "exc": ""}
            try:
                with time_limit(20):
                    ev["out_len"] = len(list(mk().initialize(env.problem, env.rep, env.rs, k)))
            except Exception as e:
                ev["exc"] = exc_name(e)
            evs.append(ev)
    for k in (2, 3, 5):
        for m in range(0, k + 3):
            progs = [env.rep.create_genotype(env.rs) for _ in range(m)]
            if m % 2:
                progs = [Individual(p, env.rep) for p in progs]
            ev = {"e": "init", "kind": "inject" + suffix, "injected": m, "k": k, "out_len": 0, "exc": ""}
            try:
                with time_limit(20):
                    w = InjectInitialPopulationWrapper(progs, StandardInitializer())
                    ev["out_len"] = len(list(w.initialize(env.problem, env.rep, env.rs, k)))
            except Exception as e:
                ev["exc"] = exc_name(e)
            evs.append(ev)
    return evs


# ---------------------------------------------------------------------------------------------------------
# C16: elitism

def ind_rec(ids, x, problem):
    f = x.get_fitness(problem)
    return {"id": ids.of(x), "f": icomps(f.fitness_components)}


def elitism_events(R, n_cases, seed0):
    evs_by_trace = []
    keep_alive = []
    for c in range(n_cases):
        minimise = bool(c % 2)
        rs = NativeRandomSource(seed0 + c)
        g = search_grammar()
        rep = TreeBasedRepresentation(g, MaxDepthDecider(rs, g, 3))
        vals = [R.choice([0, 1, 2, 3]) for _ in range(12)]   # many ties, and the value 0
        import numpy as _np
        conv = [float, _np.uint8, _np.int64, _np.float32, int, _np.uint64][(c // 2) % 6]   # fitness functions often return numpy scalars
        # (the direction often comes out of a configuration array: a numpy truth value, not the literal True / False)
        flag = [minimise, _np.bool_(minimise), minimise, _np.array([minimise])[0]][(c // 2) % 4]
        problem = SingleObjectiveProblem(lambda p, vals=vals, conv=conv: conv(vals[prog_value(p) % 12]), minimize=flag)
        ev_ = SequentialEvaluator()
        n = R.randint(1, 6)
        pop = [Individual(rep.create_genotype(rs), rep) for _ in range(n)]
        other = None
        if c % 3 == 0:
            # the individuals already carry a fitness for ANOTHER problem (opposite direction, other values)
            # that is still alive: the step must rank by the problem it is given
            other = SingleObjectiveProblem(lambda p: float((prog_value(p) * 7 + 3) % 5), minimize=not minimise)
            SequentialEvaluator().evaluate(other, pop)
        if n >= 3 and R.random() < 0.4:
            pop.append(pop[0])                # the same individual twice
        evs = []
        ids = Ids()
        for k in range(1, len(pop) + 1):
            form = ["list", "iterator", "Population"][(c + k) % 3]
            if form == "Population":
                tr = SingleObjectiveProgressTracker(problem, ev_)
                given = Population(iter(list(pop)), tr, 0)
            elif form == "iterator":
                given = iter(list(pop))
            else:
                given = list(pop)
            e = {"e": "elite", "k": k, "in_kind": form, "mini": [minimise], "exc": "", "out": []}
            try:
                out = list(ElitismStep().apply(problem, ev_, rep, rs, given, k, 1))
                e["out"] = [ind_rec(ids, x, problem) for x in out]
            except Exception as ex:
                e["exc"] = exc_name(ex)
            ev_.evaluate(problem, pop)
            e["pop"] = [ind_rec(ids, x, problem) for x in pop]
            evs.append(e)
        evs_by_trace.append((f"elite/{c}", evs, {"k": "elite", "other_problem": other is not None}))
        keep_alive.append(other)
    return evs_by_trace


class FitObserver(SearchRecorder):
    def __init__(self):
        self.gens = {}

    def register(self, tracker, individual, problem, is_best):
        g = individual.metadata.get("generation", -1)
        self.gens.setdefault(g, []).append(int(individual.get_fitness(problem).maximizing_aggregate))


def elitism_runs(R, n_runs, seed0):
    """GP runs: best fitness per generation + the number of elite slots the composition reserved"""
    out = []
    comps = [
        ("default", lambda log: default_generic_programming_step(), None),
        ("par-elite-novel", None, {"k": "par", "subs": [{"k": "elitism", "subs": [], "ws": []}, {"k": "novelty", "subs": [], "ws": []}], "ws": [1, 3]}),
        ("par-elite-sel-mut", None, {"k": "par", "subs": [{"k": "elitism", "subs": [], "ws": []},
                                                         {"k": "seq", "subs": [{"k": "tournament", "subs": [], "ws": []}, {"k": "mutation", "subs": [], "ws": []}], "ws": []}],
                                     "ws": [1, 4]}),
        ("xpar-elite-mut", None, {"k": "xpar", "subs": [{"k": "elitism", "subs": [], "ws": []}, {"k": "mutation", "subs": [], "ws": []}], "ws": [1, 2]}),
        ("novelty-only", None, {"k": "novelty", "subs": [], "ws": []}),
        # a parallel step that is NOT the root (it receives a one-shot iterator) with the elitism branch last
        ("seq-eval-par-selmut-elite", None, {"k": "seq", "subs": [
            {"k": "evaluate", "subs": [], "ws": []},
            {"k": "par", "subs": [{"k": "seq", "subs": [{"k": "tournament", "subs": [], "ws": []}, {"k": "mutation", "subs": [], "ws": []}], "ws": []},
                                  {"k": "elitism", "subs": [], "ws": []}], "ws": [3, 1]}], "ws": []}),
    ]
    for r in range(n_runs):
        name, mk, tree = comps[r % len(comps)]
        minimise = bool((r // len(comps)) % 2)
        rs = NativeRandomSource(seed0 + r)
        g = search_grammar()
        rep = TreeBasedRepresentation(g, MaxDepthDecider(rs, g, 3))
        problem = SingleObjectiveProblem(fit1, minimize=minimise)
        log = []
        if tree is None:
            # the library's default step, with its elitism leaf wrapped in a probe
            step = ParallelStep([Probe(ElitismStep(), "elitism", "s.0", log), NoveltyStep(),
                                 SequenceStep(TournamentSelection(5), GenericCrossoverStep(0.01), GenericMutationStep(0.9))],
                                weights=[5, 5, 90])
        else:
            step = build_step(tree, log)
        obs = FitObserver()
        tracker = SingleObjectiveProgressTracker(problem, SequentialEvaluator(), recorders=[obs])
        n = R.choice([4, 6, 11, 20, 25])
        gens = 6

        class GenBudget(EvaluationBudget):
            def __init__(self):
                self.checks = 0

            def is_done(self, tr):
                self.checks += 1
                return self.checks > gens

        a = GeneticProgramming(problem, GenBudget(), rep, rs, tracker, population_size=n, step=step)
        exc = ""
        try:
            with time_limit(60):
                a.search()
        except Exception as e:
            exc = exc_name(e)
        # elite slots actually handed to the elitism leaf in each generation (observed k of its probe)
        evs = []
        elite = [e for e in log if e["kind"] == "elitism"]
        for gi in sorted(obs.gens):
            slots = elite[gi - 1]["k"] if 1 <= gi <= len(elite) else 0
            seen = elite[gi - 1]["in_len"] if 1 <= gi <= len(elite) else 0
            evs.append({"e": "genfit", "g": gi, "fits": obs.gens[gi], "elite_slots": slots, "elite_in": seen})
        if exc:
            evs.append({"e": "runfail", "exc": exc})
        out.append((f"eliterun/{r}/{name}", evs, {"k": "eliterun", "name": name, "n": n, "exclusive": name.startswith("xpar")}))
    return out


def simplegp_elite_runs(R, n_runs, seed0):
    """runs started through the repository's simple API: the number of elite slots is what the CALLER configured
    (`elitism=`), not something read back from the step it built"""
    from geml.simplegp import SimpleGP
    out = []
    for r in range(n_runs):
        n = R.choice([6, 12, 20])
        elitism, novelty = [(1, 0), (3, 0), (2, 2), (1, 3), (n // 2, 0)][r % 5]
        minimise = bool((r // 5) % 2)
        obs = FitObserver()
        exc = ""
        try:
            sgp = SimpleGP(fit1, search_grammar(), minimize=minimise, max_depth=3, max_time=10 ** 9, max_evaluations=10 ** 9,
                           seed=seed0 + r, population_size=n, elitism=elitism, novelty=novelty,
                           mutation_probability=0.9, crossover_probability=0.5)
            sgp.gp.tracker.recorders.append(obs)
            gens = 6

            class GenBudget(EvaluationBudget):
                def __init__(self):
                    self.checks = 0

                def is_done(self, tr):
                    self.checks += 1
                    return self.checks > gens
            sgp.gp.budget = GenBudget()
            with time_limit(60):
                sgp.search()
        except Exception as e:
            exc = exc_name(e)
        evs = [{"e": "genfit", "g": gi, "fits": obs.gens[gi], "elite_slots": elitism, "elite_in": n} for gi in sorted(obs.gens)]
        if exc:
            evs.append({"e": "runfail", "exc": exc})
        out.append((f"eliterun/simplegp/{r}/{elitism}-{novelty}", evs,
                    {"k": "eliterun", "name": f"simplegp-{elitism}-{novelty}", "n": n, "exclusive": False}))
    return out


# ---------------------------------------------------------------------------------------------------------
# C17: selection, all outcomes of the random draws

class ChoiceLog(RecordingSource):
    """logs which objects `choice` returned and the permutation `shuffle` produced"""

    def __init__(self, inner, events, ids, problem):
        super().__init__(inner)
        self.events = events
        self.ids = ids
        self.problem = problem

    def choice(self, choices):
        r = RecordingSource.__mro__[1].choice(self, choices)
        if isinstance(r, Individual):
            self.events.append({"e": "draw", "ind": ind_rec(self.ids, r, self.problem),
                                "offered": [self.ids.of(x) for x in choices]})
        return r

    def shuffle(self, lst):
        r = RecordingSource.__mro__[1].shuffle(self, lst)
        self.events.append({"e": "shuffle", "order": [int(x) + 1 for x in r]})
        return r


def selection_traces(R, tier, part="all"):
    """part = "tournament-sample": only plain tournaments (for the advisory pool conformance), no lexicase"""
    traces = []
    quick = tier == "quick"
    sample = part == "tournament-sample"
    # tournament
    pops = [[3], [1, 2], [2, 2], [1, 2, 3], [3, 1, 2], [2, 3, 2]] + ([] if quick else [[1, 2, 3, 1], [4, 1, 3, 2]])
    for pi, vals in enumerate(pops):
        for minimise in (False, True):
            for tsize in [1, 2, 3]:
                for repl, pre, reuse in ((False, False, False), (True, False, False), (True, True, False),
                                         (False, False, True), (True, False, True)):
                    # reuse: the SAME step object has already served another population in the same generation
                    # pre: the individuals already carry a fitness for ANOTHER (conflicting) problem that is still alive
                    for target in range(1, len(vals) + 1):
                        if len(vals) ** (tsize * target) > 3000:      # (a leaf costs about 7 ms: the thorough tier adds populations, not depth)
                            continue
                        if pre and (tsize < 2 or len(vals) < 2):
                            continue
                        if reuse and target > 2:
                            continue
                        if sample and (pre or reuse):
                            continue
                        leaves = 0

                        def run(src, vals=vals, minimise=minimise, tsize=tsize, repl=repl, target=target, pre=pre, reuse=reuse):
                            rs = NativeRandomSource(1)
                            g = search_grammar()
                            rep = TreeBasedRepresentation(g, MaxDepthDecider(rs, g, 2))
                            inds = [Individual(SLeaf(v), rep) for v in vals]
                            ev_ = SequentialEvaluator()
                            events, ids = [], Ids()
                            other = SingleObjectiveProblem(lambda p: -float(p.v), minimize=minimise)
                            if pre:
                                # the same individuals have already been through tournaments for ANOTHER problem that ranks them
                                # the other way round; for half of the populations that problem is then dropped, so that the
                                # problem under test may even be allocated where the old one was
                                SequentialEvaluator().evaluate(other, inds)
                                list(TournamentSelection(2, with_replacement=True).apply(other, SequentialEvaluator(), rep,
                                                                                          NativeRandomSource(3), list(inds), 3, 1))
                                kf = Individual.key_function(other)      # ... every one of them has been ranked for it
                                for x in inds:
                                    kf(x)
                                del kf
                                old_id = 0
                                if len(vals) % 2 == 0:
                                    old_id = id(other)
                                    other = None
                                    import gc
                                    gc.collect()
                            problem = SingleObjectiveProblem(lambda p: float(p.v), minimize=minimise)
                            if pre and old_id:
                                # allocate until the new problem sits where the dropped one was (usually at once)
                                spare = []
                                for _ in range(64):
                                    if id(problem) == old_id:
                                        break
                                    spare.append(problem)
                                    problem = SingleObjectiveProblem(lambda p: float(p.v), minimize=minimise)
                                del spare
                            ev_.evaluate(problem, inds)
                            popr = [ind_rec(ids, x, problem) for x in inds]
                            log = ChoiceLog(src, events, ids, problem)
                            log.keepalive = other
                            step = TournamentSelection(tsize, with_replacement=repl)
                            if reuse:
                                others = [Individual(SLeaf(v + 100), rep) for v in (vals + [7])]
                                list(step.apply(problem, ev_, rep, NativeRandomSource(5), others, len(others), 1))
                            it = step.apply(problem, ev_, rep, log, list(inds), target, 1)
                            exc = ""
                            try:
                                for w in it:
                                    events.append({"e": "win", "ind": ind_rec(ids, w, problem)})
                            except Exception as e:
                                exc = exc_name(e)
                            events.insert(0, {"e": "selstart", "kind": "tournament", "pop": popr, "mini": [minimise],
                                              "tsize": tsize, "target": target, "repl": repl, "ids": [x["id"] for x in popr]})
                            events.append({"e": "selend", "exc": exc})
                            return events

                        try:
                            for script, s, res in explore(run, cap=64, max_leaves=10000):
                                if isinstance(res, Exception):
                                    res = [{"e": "selend", "exc": exc_name(res)}]
                                traces.append((f"tour/{pi}/{int(minimise)}/{tsize}/{int(repl)}{int(pre)}{int(reuse)}/{target}/{leaves}", res,
                                               {"k": "selection"}))
                                leaves += 1
                        except Exhausted:
                            pass        # the decision tree of this configuration exceeds the cap: covered up to the cap
    if sample:
        return traces
    # lexicase
    lpops = [[[0, 0], [0, 0], [0, 1]], [[1, 2], [2, 1]], [[1, 1], [1, 2], [2, 1]], [[2, 2], [2, 2]], [[1, 2, 3], [3, 2, 1], [2, 2, 2]],
             # spreads that change as winners leave the pool (the epsilon band has to follow the remaining candidates)
             [[0, 0], [4, 4], [10, 10], [9, 9]], [[0, 3], [6, 1], [10, 10], [9, 9]], [[1, 2], [1, 2], [2, 1]]]
    if not quick:
        lpops += [[[0, 1], [1, 0], [1, 1], [0, 0]], [[1, 2, 1], [2, 1, 1], [1, 1, 2], [2, 2, 2]]]
    for pi, vecs in enumerate(lpops):
        ncase = len(vecs[0])
        minis = [[False] * ncase, [True] * ncase, [False, True] + [False] * (ncase - 2), [True, False] + [True] * (ncase - 2)]
        for mi, mini in enumerate(minis):
            for eps in (False, True):
                for target in range(1, len(vecs) + 1):
                    leaves = 0

                    def run(src, vecs=vecs, mini=mini, eps=eps, target=target):
                        rs = NativeRandomSource(1)
                        g = search_grammar()
                        rep = TreeBasedRepresentation(g, MaxDepthDecider(rs, g, 2))
                        # (population 7 holds TWINS: distinct individuals with equal genotypes, hence equal fitness)
                        twins = vecs == [[1, 2], [1, 2], [2, 1]]
                        inds = [Individual(SLeaf(0 if (twins and i == 1) else i), rep) for i in range(len(vecs))]
                        # the vectors the specification reasons with are the ones the fitness function PRODUCED (this table),
                        # not what the library stored; on odd configurations the callback answers through one reused list
                        buf = []

                        def ff(p, vecs=vecs, buf=buf, reuse_buf=bool((mi + int(eps) + target) % 2)):
                            if reuse_buf:
                                buf[:] = [float(x) for x in vecs[p.v]]
                                return buf
                            return [float(x) for x in vecs[p.v]]

                        def rec_of(ids, x, vecs=vecs):
                            return {"id": ids.of(x), "f": icomps([float(v) for v in vecs[x.genotype.v]])}
                        problem = MultiObjectiveProblem(list(mini), ff)
                        ev_ = SequentialEvaluator()
                        events, ids = [], Ids()
                        ev_.evaluate(problem, inds)
                        popr = [rec_of(ids, x) for x in inds]
                        log = ChoiceLog(src, events, ids, problem)
                        it = LexicaseSelection(epsilon=eps).apply(problem, ev_, rep, log, list(inds), target, 1)
                        exc = ""
                        try:
                            for w in it:
                                events.append({"e": "win", "ind": rec_of(ids, w)})
                        except Exception as e:
                            exc = exc_name(e)
                        events.insert(0, {"e": "selstart", "kind": "lexicase", "pop": popr, "mini": list(mini),
                                          "eps": eps, "target": target, "tsize": 0})
                        events.append({"e": "selend", "exc": exc})
                        return events

                    try:
                        for script, s, res in explore(run, cap=64, max_leaves=3000):
                            if isinstance(res, Exception):
                                res = [{"e": "selend", "exc": exc_name(res)}]
                            traces.append((f"lex/{pi}/{mi}/{int(eps)}/{target}/{leaves}", res, {"k": "selection"}))
                            leaves += 1
                    except Exhausted:
                        pass
    return traces


def main():
    ap = argparse.ArgumentParser()
    ap.add_argument("--out", required=True)
    ap.add_argument("--tier", default="quick")
    ap.add_argument("--seed", type=int, default=0)
    ap.add_argument("--shards", type=int, default=1)
    ap.add_argument("--prop", default="C15")
    ap.add_argument("--gen", default="")
    a = ap.parse_args()
    R = rng(a.seed, "steps" + a.prop)
    batch = Batch(a.prop, {"tier": a.tier, "seed": a.seed, "prop": a.prop})
    nev = 0
    quick = a.tier == "quick"
    if a.prop == "C15":
        with open(a.gen) as f:
            gen = json.load(f)
        d1, deep = gen["d1"], gen["deep"]
        forms = ["list", "Population", "iterator"]
        sizes = [2, 3, 5, 8] if quick else [2, 3, 4, 5, 7, 9]
        # quick: a third of the depth-one space (rotating with the seed) x one size x one form each
        sel = [t for i, t in enumerate(d1) if quick is False or (i + a.seed) % 3 == 0]
        for i, tree in enumerate(sel):
            for n in (sizes if not quick else [sizes[(i + a.seed) % len(sizes)]]):
                form = forms[(i + n) % 3]
                again = () if i % 4 else (sizes[(i + 1) % len(sizes)], sizes[(i + 3) % len(sizes)])
                ev, cfg = apply_config(R, tree, n, form, 1000 + i, again)
                batch.trace(f"d1/{i}/{n}/{form}", ev, cfg)
                nev += len(ev)
        for i, tree in enumerate(deep if not quick else deep[:400]):
            n = sizes[i % len(sizes)]
            form = forms[i % 3]
            ev, cfg = apply_config(R, tree, n, form, 5000 + i)
            batch.trace(f"deep/{i}/{n}/{form}", ev, cfg)
            nev += len(ev)
        # whole GP runs: every generation has the configured size
        runs = deep[:60] if quick else deep[:600]
        for i, tree in enumerate(runs):
            n = sizes[(i * 7) % len(sizes)]
            ev, cfg = gp_run(R, tree, n, 3, 9000 + i)
            batch.trace(f"gp/{i}/{n}", ev, cfg)
            nev += len(ev)
        dflt = {"k": "par", "subs": [{"k": "elitism", "subs": [], "ws": []}, {"k": "novelty", "subs": [], "ws": []},
                                     {"k": "seq", "subs": [{"k": "tournament", "subs": [], "ws": []},
                                                           {"k": "crossover", "subs": [], "ws": []},
                                                           {"k": "mutation", "subs": [], "ws": []}], "ws": []}],
                "ws": [5, 5, 90]}
        for n in ([2, 3, 7, 10, 11, 19, 20] if quick else list(range(2, 41))):
            ev, cfg = gp_run(R, dflt, n, 3, 7000 + n)
            batch.trace(f"gp/default/{n}", ev, cfg)
            nev += len(ev)
        for i, (n, el, nov, inj) in enumerate([(2, 0, 0, 0), (2, 1, 1, 0), (3, 1, 1, 0), (5, 1, 0, 2), (7, 2, 3, 0), (10, 1, 1, 10),
                                               (11, 5, 5, 3), (20, 10, 10, 0), (9, 0, 9, 0), (9, 9, 0, 12)]
                                              + ([] if quick else [(n, n // 3, n // 4, n // 2) for n in range(4, 41)])):
            ev, cfg = simplegp_run(R, n, el, nov, 3, 4000 + i, inject=inj)
            batch.trace(f"gp/simplegp/{n}/{el}/{nov}/{inj}", ev, cfg)
            nev += len(ev)
        ev = initializer_events(R, 77 + a.seed)
        batch.trace("initializers", ev, {"k": "init"})
        nev += len(ev)
    elif a.prop == "C16":
        for tid, ev, cfg in elitism_events(R, 250 if quick else 5000, 100):
            batch.trace(tid, ev, cfg)
            nev += len(ev)
        for tid, ev, cfg in elitism_runs(R, 30 if quick else 600, 300):
            batch.trace(tid, ev, cfg)
            nev += len(ev)
        for tid, ev, cfg in simplegp_elite_runs(R, 10 if quick else 100, 900):
            batch.trace(tid, ev, cfg)
            nev += len(ev)
    elif a.prop == "C17":
        for tid, ev, cfg in selection_traces(R, a.tier):
            batch.trace(tid, ev, cfg)
            nev += len(ev)
    paths = batch.shards(a.out, a.shards)
    write_summary(a.out, {"batches": paths, "traces": len(batch.traces), "events": nev})


if __name__ == "__main__":
    main()
