"""SYN driver for C01 / C02 / C03 / C10 / C11: programs produced by every creation path of the library.

For every grammar (regression grammars + generated family) and every depth limit around the grammar's
reported minimum: deciders are constructed (events decider_new), programs are created / mapped /
mutated / crossed over with all five representations (events produced / failed), the public
validate() of every refinement is called on generated values (events validate) and the Grammar
object is re-projected after the workload (event grammar).  TLC (Trace_Syn) judges every event.
"""
from __future__ import annotations

import argparse
import json
import os
import sys
import typing

from harness.common import Batch, rng, write_summary, exc_name, is_lib_exc, time_limit, HangTimeout
from harness import grammars as GR
from harness.proj import declared_grammar, impl_grammar, term_of, finalize, fields_of, form_of, mh_of
from harness.sources import RecordingSource

from geneticengine.grammar.grammar import extract_grammar
from geneticengine.random.sources import NativeRandomSource
from geneticengine.representations.tree.treebased import TreeBasedRepresentation
from geneticengine.representations.tree.initializations import (MaxDepthDecider, FullDecider,
                                                                 PositionIndependentGrowDecider,
                                                                 ProgressivelyTerminalDecider)
from geneticengine.representations.grammatical_evolution.ge import GrammaticalEvolutionRepresentation
from geneticengine.representations.grammatical_evolution.structured_ge import StructuredGrammaticalEvolutionRepresentation
from geneticengine.representations.grammatical_evolution.dynamic_structured_ge import (
    DynamicStructuredGrammaticalEvolutionRepresentation)
from geneticengine.representations.stackgggp import StackBasedGGGPRepresentation

DECIDERS = {
    "grow": MaxDepthDecider,
    "full": FullDecider,
    "pigrow": PositionIndependentGrowDecider,
}

FEATS_ALL = [
    {"intrange", "nested_abstract", "concrete_ref"},
    {"intrange", "sizedlist", "union", "nested_abstract"},
    {"intrange", "bool", "int", "float", "str", "varrange", "sizedlist", "concrete_ref"},
    {"intrange", "tuple", "union", "sizedlist", "nested_abstract"},
    {"intrange", "floatrange", "strsize", "interval", "intlist", "floatlist", "weightedstr", "sizedlist"},
    {"intrange", "dependent", "sizedlist", "varrange"},
    {"intrange", "plainlist", "bool", "union"},
    {"intrange", "nested", "sizedlist", "union"},
]


class TooManyHangs(Exception):
    pass


class Ctx:
    def __init__(self, built, prop, meta=False, expd=False):
        self.b = built
        self.prop = prop
        self.meta = meta
        self.events = []
        self.g = extract_grammar(built.considered, built.start, expansion_depthing=expd)
        self.decl = built.oracle()
        self.impl0 = impl_grammar(self.g)
        self.mind = int(self.g.get_min_tree_depth())

    def produced(self, op, rep, decider, d, prog):
        self.events.append({"e": "produced", "op": op, "rep": rep, "decider": decider, "d": d, "mind": self.mind,
                            "prog": term_of(prog, meta=self.meta)})

    def failed(self, op, rep, decider, d, exc, draws):
        opc = "map" if op.startswith("map") else op
        self.events.append({"e": "failed", "op": op, "opc": opc, "rep": rep, "decider": decider, "d": d, "mind": self.mind,
                            "exc": exc_name(exc), "lib": is_lib_exc(exc), "draws": draws})

    def attempt(self, op, rep, decider, d, fn, src=None, project=True):
        """run fn(); returns its value or None; records produced/failed"""
        before = src.count if src is not None else 0
        try:
            with time_limit(8):          # library operations on these grammars take milliseconds
                v = fn()
        except Exception as e:
            self.failed(op, rep, decider, d, e, (src.count - before) if src is not None else -1)
            if isinstance(e, HangTimeout):
                self.hangs = getattr(self, "hangs", 0) + 1
                if self.hangs >= 4:
                    raise TooManyHangs()       # recorded four times already; the rest of this grammar would only repeat it
            return None
        if project:
            self.produced(op, rep, decider, d, v)
        return v

    def snapshot_grammar(self):
        self.events.append({"e": "grammar", "impl": impl_grammar(self.g)})


def mk_decider(ctx, kind, d, src):
    if kind == "pt":
        return ProgressivelyTerminalDecider(src, ctx.g)
    return DECIDERS[kind](src, ctx.g, d)


def workload(ctx, R, d, kinds, reps, n_create, n_var):
    """create / map / mutate / crossover with every requested representation under depth limit d"""
    if getattr(ctx, "hangs", 0) >= 4:
        return
    allowed = ctx.b.spec.get("reps") if isinstance(ctx.b.spec, dict) else None
    if allowed:
        reps = [r for r in reps if r in allowed]
    try:
        _workload(ctx, R, d, kinds, reps, n_create, n_var)
    except TooManyHangs:
        pass


def _workload(ctx, R, d, kinds, reps, n_create, n_var):
    for kind in kinds:
        src = RecordingSource(NativeRandomSource(R.randint(0, 10 ** 6)))
        before = src.count
        try:
            dec = mk_decider(ctx, kind, d, src)
            ctx.events.append({"e": "decider_new", "decider": kind, "d": d, "mind": ctx.mind, "ok": True, "exc": "",
                               "lib": True, "draws": src.count - before})
        except Exception as e:
            ctx.events.append({"e": "decider_new", "decider": kind, "d": d, "mind": ctx.mind, "ok": False,
                               "exc": exc_name(e), "lib": is_lib_exc(e), "draws": src.count - before})
            continue
        if "tree" in reps:
            rep = TreeBasedRepresentation(ctx.g, dec)
            genos = []
            for _ in range(n_create):
                t = ctx.attempt("create", "tree", kind, d, lambda: rep.create_genotype(src), src)
                if t is not None:
                    genos.append(t)
            for i in range(n_var):
                if not genos:
                    break
                p = genos[R.randrange(len(genos))]
                m = ctx.attempt("mutate", "tree", kind, d, lambda: rep.mutate(src, p), src)
                if m is not None:
                    genos.append(m)
                if len(genos) >= 2:
                    a, b = genos[R.randrange(len(genos))], genos[R.randrange(len(genos))]
                    c = ctx.attempt("crossover", "tree", kind, d, lambda: rep.crossover(src, a, b), src, project=False)
                    if c is not None:
                        for x in c:
                            ctx.produced("crossover", "tree", kind, d, x)
                            genos.append(x)
                        if ctx.meta:
                            # the parents are still programs of the population: their labels must still be right
                            ctx.produced("parent-after-crossover", "tree", kind, d, a)
                            ctx.produced("parent-after-crossover", "tree", kind, d, b)
            if ctx.prop == "C03" and genos:
                # one lineage: each mutation starts from the previous result
                m = genos[0]
                for _ in range(6):
                    m = ctx.attempt("mutate-lineage", "tree", kind, d, lambda: rep.mutate(src, m), src)
                    if m is None:
                        break
                    x = ctx.attempt("crossover-lineage", "tree", kind, d, lambda: rep.crossover(src, m, genos[0]), src,
                                    project=False)
                    if x is not None:
                        ctx.produced("crossover-lineage", "tree", kind, d, x[0])
                        m = x[0]
        glen = R.choice([5, 48, 48])          # short genomes wrap around, long ones do not
        for rname, mk in (("ge", lambda: GrammaticalEvolutionRepresentation(ctx.g, dec, gene_length=glen)),
                          ("sge", lambda: StructuredGrammaticalEvolutionRepresentation(ctx.g, dec, gene_length=24))):
            if rname not in reps:
                continue
            rep = mk()
            genos = []
            for _ in range(n_create):
                gt = ctx.attempt("create", rname, kind, d, lambda: rep.create_genotype(src), src, project=False)
                if gt is not None:
                    genos.append(gt)
                    ctx.attempt("map", rname, kind, d, lambda: rep.genotype_to_phenotype(gt), src)
            if genos:
                # boundary genotypes: every codon 0 / the largest codon (legal genotypes, mutation can produce them)
                import copy as _copy
                import sys as _sys
                for codon in (0, _sys.maxsize):
                    bg = _copy.deepcopy(genos[0])
                    if isinstance(bg.dna, dict):
                        for kk in bg.dna:
                            bg.dna[kk] = [codon] * len(bg.dna[kk])
                    else:
                        bg.dna = [codon] * len(bg.dna)
                    ctx.attempt("map-boundary", rname, kind, d, lambda: rep.genotype_to_phenotype(bg), src)
            for i in range(n_var):
                if not genos:
                    break
                p = genos[R.randrange(len(genos))]
                m = ctx.attempt("mutate", rname, kind, d, lambda: rep.mutate(src, p), src, project=False)
                if m is not None:
                    genos.append(m)
                    ctx.attempt("map-mutated", rname, kind, d, lambda: rep.genotype_to_phenotype(m), src)
                if len(genos) >= 2:
                    a, b = genos[R.randrange(len(genos))], genos[R.randrange(len(genos))]
                    c = ctx.attempt("crossover", rname, kind, d, lambda: rep.crossover(src, a, b), src, project=False)
                    if c is not None:
                        for x in c:
                            genos.append(x)
                            ctx.attempt("map-crossed", rname, kind, d, lambda: rep.genotype_to_phenotype(x), src)
        if kind == "pt":
            # the decider without a depth limit, fed by very short cyclic genomes: creation must still end
            for rname, mk in (("ge", lambda: GrammaticalEvolutionRepresentation(ctx.g, dec, gene_length=R.choice([1, 2, 3]))),
                              ("sge", lambda: StructuredGrammaticalEvolutionRepresentation(ctx.g, dec, gene_length=R.choice([1, 2])))):
                if rname not in reps:
                    continue
                rep = mk()
                for _ in range(4):
                    gt = ctx.attempt("create", rname, kind, d, lambda: rep.create_genotype(src), src, project=False)
                    if gt is not None:
                        ctx.attempt("map", rname, kind, d, lambda: rep.genotype_to_phenotype(gt), src)
    if "dsge" in reps:
        src = RecordingSource(NativeRandomSource(R.randint(0, 10 ** 6)))
        rep = DynamicStructuredGrammaticalEvolutionRepresentation(ctx.g, d)
        genos = []
        for _ in range(n_create):
            gt = ctx.attempt("create", "dsge", "dsge", d, lambda: rep.create_genotype(src), src, project=False)
            if gt is not None:
                r = ctx.attempt("map", "dsge", "dsge", d, lambda: rep.genotype_to_phenotype(gt), src)
                if r is not None:
                    genos.append(gt)
        for i in range(n_var):
            if not genos:
                break
            p = genos[R.randrange(len(genos))]
            m = ctx.attempt("mutate", "dsge", "dsge", d, lambda: rep.mutate(src, p), src, project=False)
            if m is not None:
                if ctx.attempt("map-mutated", "dsge", "dsge", d, lambda: rep.genotype_to_phenotype(m), src) is not None:
                    genos.append(m)
            if len(genos) >= 2:
                a, b = genos[R.randrange(len(genos))], genos[R.randrange(len(genos))]
                c = ctx.attempt("crossover", "dsge", "dsge", d, lambda: rep.crossover(src, a, b), src, project=False)
                if c is not None:
                    for x in c:
                        if ctx.attempt("map-crossed", "dsge", "dsge", d, lambda: rep.genotype_to_phenotype(x), src) is not None:
                            genos.append(x)
    if "stack" in reps:
        src = RecordingSource(NativeRandomSource(R.randint(0, 10 ** 6)))
        rep = StackBasedGGGPRepresentation(ctx.g, gene_length=256)
        genos = []
        for _ in range(n_create):
            gt = ctx.attempt("create", "stack", "stack", d, lambda: rep.create_genotype(src), src, project=False)
            if gt is not None:
                genos.append(gt)
                ctx.attempt("map", "stack", "stack", d, lambda: rep.genotype_to_phenotype(gt), src)
        for i in range(n_var):
            if not genos:
                break
            p = genos[R.randrange(len(genos))]
            m = ctx.attempt("mutate", "stack", "stack", d, lambda: rep.mutate(src, p), src, project=False)
            if m is not None:
                genos.append(m)
                ctx.attempt("map-mutated", "stack", "stack", d, lambda: rep.genotype_to_phenotype(m), src)
            if len(genos) >= 2:
                a, b = genos[R.randrange(len(genos))], genos[R.randrange(len(genos))]
                c = ctx.attempt("crossover", "stack", "stack", d, lambda: rep.crossover(src, a, b), src, project=False)
                if c is not None:
                    for x in c:
                        genos.append(x)
                        ctx.attempt("map-crossed", "stack", "stack", d, lambda: rep.genotype_to_phenotype(x), src)


def validate_events(ctx, R):
    """call the public validate() of every refinement on values its generator produces"""
    src = NativeRandomSource(R.randint(0, 10 ** 6))
    for cls in ctx.b.classes.values():
        for fname, ty in fields_of(cls):
            if not hasattr(ty, "__metadata__"):
                continue
            mh = ty.__metadata__[0]
            kind = mh_of(mh)["k"]
            if kind in ("Dependent", "ListSize", "Unknown", "Custom"):
                continue
            for _ in range(12):
                try:
                    v = mh.generate(src, ctx.g, ty.__origin__, None, {})
                    ok = bool(mh.validate(v))
                    ctx.events.append({"e": "validate", "mh": kind, "ok": ok, "exc": ""})
                except Exception as e:
                    ctx.events.append({"e": "validate", "mh": kind, "ok": False, "exc": exc_name(e)})


def initial_population_events(ctx, R, d):
    """the population initialisers, including a warm start from programs AND from individuals of an earlier run:
    what every individual of the first generation holds, and what the fitness function is handed, is a program"""
    from geneticengine.solutions.individual import Individual
    from geneticengine.problems import SingleObjectiveProblem
    from geneticengine.evaluation.sequential import SequentialEvaluator
    from geneticengine.representations.tree.operators import (InjectInitialPopulationWrapper, FullInitializer,
                                                               GrowInitializer, RampedHalfAndHalfInitializer)
    from geneticengine.algorithms.gp.operators.initializers import StandardInitializer
    allowed = ctx.b.spec.get("reps") if isinstance(ctx.b.spec, dict) else None
    if allowed and "tree" not in allowed:
        return
    src = RecordingSource(NativeRandomSource(R.randint(0, 10 ** 6)))
    try:
        with time_limit(8):
            rep = TreeBasedRepresentation(ctx.g, mk_decider(ctx, "grow", d, src))
            seen = []
            problem = SingleObjectiveProblem(lambda p: (seen.append(p), 0.0)[1])
            progs = [rep.create_genotype(src) for _ in range(4)]
    except Exception:
        return
    earlier = [Individual(p, rep) for p in progs[:2]]
    inits = [("inject-programs", lambda: InjectInitialPopulationWrapper(progs[2:], StandardInitializer())),
             ("inject-individuals", lambda: InjectInitialPopulationWrapper(earlier, StandardInitializer())),
             ("inject-mixed", lambda: InjectInitialPopulationWrapper([earlier[0], progs[3]], StandardInitializer())),
             ("standard", StandardInitializer), ("full", lambda: FullInitializer(d)), ("grow", GrowInitializer),
             ("ramped", lambda: RampedHalfAndHalfInitializer(d))]
    for name, mk in inits:
        def run():
            return list(mk().initialize(problem, rep, src, 3))
        pop = ctx.attempt("init-" + name, "tree", "grow", d, run, src, project=False)
        if pop is None:
            continue
        for ind in pop:
            ctx.produced("init-" + name, "tree", "grow", d, ind.get_phenotype() if isinstance(ind, Individual) else ind)
        del seen[:]
        r = ctx.attempt("init-eval-" + name, "tree", "grow", d, lambda: list(SequentialEvaluator().evaluate_async(problem, pop)),
                        src, project=False)
        if r is not None:
            for p in seen:
                ctx.produced("fitness-arg-" + name, "tree", "grow", d, p)


def cooperative_events(ctx, R):
    """the co-evolution front end (two species over the same grammar): with the random source left to the library, as its
    shipped example does, and with a seeded one; both arguments of every call of the user's function are programs"""
    from geneticengine.algorithms.gp.cooperativegp import CooperativeGP
    from geneticengine.evaluation.budget import EvaluationBudget
    allowed = ctx.b.spec.get("reps") if isinstance(ctx.b.spec, dict) else None
    if allowed and "tree" not in allowed:
        return
    # (the library's own deciders go ten levels deep: only grammars without lists are run in that mode)
    modes = ("own-source", "seeded") if "list" not in repr(ctx.b.spec.get("classes")) else ("seeded",)
    for mode in modes:
        seen = []

        def f(a, b):
            seen.append((a, b))
            return float(len(seen) % 3)

        def run():
            kw = {}
            if mode == "seeded":
                rs = NativeRandomSource(R.randint(0, 10 ** 6))
                kw = {"random": rs, "representation1": TreeBasedRepresentation(ctx.g, MaxDepthDecider(rs, ctx.g, ctx.mind + 2)),
                      "representation2": TreeBasedRepresentation(ctx.g, MaxDepthDecider(rs, ctx.g, ctx.mind + 1))}
            alg = CooperativeGP(ctx.g, ctx.g, f, population1_size=3, population2_size=4, coevolutions=1,
                                kwargs1={"budget": EvaluationBudget(6)}, kwargs2={"budget": EvaluationBudget(6)}, **kw)
            return alg.search()
        d = ctx.mind
        r = ctx.attempt("coop-" + mode, "tree", "grow", d, run, None, project=False)
        for a, b in seen[:6]:
            ctx.produced("coop-arg-" + mode, "tree", "grow", d, a)
            ctx.produced("coop-arg-" + mode, "tree", "grow", d, b)
        if r is not None:
            ctx.produced("coop-best-" + mode, "tree", "grow", d, r[0])
            ctx.produced("coop-best-" + mode, "tree", "grow", d, r[1])


def simplegp_events(ctx, R):
    """the one-call front end (geml.simplegp.SimpleGP) with each of the representation names it documents: what the
    fitness function is handed and what the search returns are programs"""
    from geml.simplegp import SimpleGP
    allowed = ctx.b.spec.get("reps") if isinstance(ctx.b.spec, dict) else None
    names = {"treebased": "tree", "ge": "ge", "sge": "sge", "dsge": "dsge", "stack": "stack"}
    for name, rep in names.items():
        if allowed and rep not in allowed:
            continue
        seen = []

        def f(p):
            seen.append(p)
            return float(len(seen) % 3)

        def run():
            sg = SimpleGP(f, ctx.g, minimize=False, representation=name, max_depth=ctx.mind + 2, max_time=10 ** 6,
                          max_evaluations=8, seed=R.randint(0, 10 ** 6), population_size=4, elitism=1, novelty=1)
            return sg.search()
        d = ctx.mind + 2
        r = ctx.attempt("simplegp", rep, "grow", d, run, None, project=False)
        for p in seen[:6]:
            ctx.produced("simplegp-arg", rep, "grow", d, p)
        if r is not None:
            best = r[0] if isinstance(r, list) else r
            ctx.produced("simplegp-best", rep, "grow", d, best.get_phenotype())


def run_grammar(spec, prop, R, tier, batch, stats):
    b = GR.build_raw(spec) if "source" in spec else GR.build(spec)
    try:
        try:
            with time_limit(10):
                ctx = Ctx(b, prop, meta=(prop == "C11"))
        except Exception as e:
            batch.trace(spec["id"], [{"e": "extract_failed", "exc": exc_name(e)}],
                        {"k": "syn", "g": b.oracle(), "impl0": {"expd": False},
                         "annot": "strings" if spec.get("postponed") else "objects", "expd": False})
            return
        quick = tier == "quick"
        mind = ctx.mind
        if prop == "C03":
            # "for every grammar": also one that has seen OTHER grammars being extracted over subsets of its classes
            # (the analysis tables belong to the Grammar object; nothing else in the process may rewrite them)
            from geneticengine.grammar.grammar import extract_grammar as _extract
            for k in range(len(b.considered)):
                subset = [c for i, c in enumerate(b.considered) if i != k]
                try:
                    with time_limit(5):
                        _extract(subset, b.start)
                except Exception:
                    pass
            depths = [mind - 1, mind, mind + 1, mind + 2, mind + 4] if quick else \
                [mind - 1, mind, mind + 1, mind + 2, mind + 3, mind + 4]
            depths = depths + [mind]        # ... and the minimum once more, after everything else has happened on this Grammar object
            if spec["id"] == "chain":
                # very large limits: only whether creation completes is recorded (programs a thousand levels deep are not projected)
                for big in (900, 1500):
                    for kind in ("full", "pigrow"):
                        src = RecordingSource(NativeRandomSource(R.randint(0, 10 ** 6)))
                        dec = mk_decider(ctx, kind, big, src)
                        rep = TreeBasedRepresentation(ctx.g, dec)
                        ctx.attempt("create", "tree", kind, big, lambda: rep.create_genotype(src), src, project=False)
            for d in depths:
                if d < 0:
                    continue
                # (programs grow exponentially with the limit; the deeper limits get fewer repetitions)
                deep = d > mind + 2
                workload(ctx, R, d, ["grow", "full", "pigrow"], ["tree", "ge", "sge", "dsge"],
                         2 if (quick or deep) else 4, 2 if (quick or deep) else 5)
        elif prop == "C10":
            for d in [mind - 1, mind, mind + 2]:
                if d >= 0:
                    workload(ctx, R, d, ["grow", "full", "pigrow", "pt"], ["tree", "ge", "sge", "dsge", "stack"], 2, 2)
                ctx.snapshot_grammar()
            # grammar-level operations of the library itself must not disturb the grammar object either
            try:
                ctx.g.usable_grammar()
                ctx.g.get_grammar_properties_summary()
            except Exception:
                pass
            ctx.snapshot_grammar()
        elif spec.get("postponed"):
            for d in (mind + 1, mind + 2):
                workload(ctx, R, d, ["grow", "pt"], ["tree", "stack"], 3 if quick else 8, 3 if quick else 8)
        else:
            d = mind + 2
            workload(ctx, R, d, ["grow", "full", "pigrow", "pt"], ["tree", "ge", "sge", "dsge", "stack"],
                     2 if quick else 5, 2 if quick else 6)
            # ... and at the tightest limit the library accepts (no slack anywhere in the derivation)
            workload(ctx, R, mind, ["grow", "full"], ["tree", "ge", "sge", "dsge"], 1 if quick else 3, 1 if quick else 3)
            if prop == "C02":
                validate_events(ctx, R)
            if prop == "C01":
                initial_population_events(ctx, R, d)
                if "source" not in spec and mind <= 4:
                    cooperative_events(ctx, R)
                    simplegp_events(ctx, R)
        cfg = {"k": "syn", "g": ctx.decl, "impl0": ctx.impl0, "feats": spec.get("feats", []),
               "annot": "strings" if spec.get("postponed") else "objects", "expd": False}
        batch.trace(spec["id"], ctx.events, cfg)
        stats["events"] += len(ctx.events)
        if prop == "C11":
            # the same grammar counted in expansion-depthing mode (abstract layers, lists and base values cost a level)
            try:
                with time_limit(10):
                    cx = Ctx(b, prop, meta=True, expd=True)
            except Exception:
                return
            if cx.mind < 1000:
                workload(cx, R, cx.mind + 2, ["grow", "pt"], ["tree", "ge", "dsge"], 2 if quick else 4, 2 if quick else 4)
                batch.trace(spec["id"] + "/expansion", cx.events,
                            {"k": "syn", "g": cx.decl, "impl0": cx.impl0, "feats": spec.get("feats", []), "annot": "objects",
                             "expd": True})     # the mode that was REQUESTED (the grammar's own flag is the implementation's word)
                stats["events"] += len(cx.events)
    finally:
        b.dispose()


def redeclare_scenario(spec, prop, R, batch, stats):
    """the documented idiom: re-declare a refinement on an already used class, extract again, generate"""
    from geneticengine.grammar.metahandlers.ints import IntRange
    from typing import Annotated
    if "Dep" in repr(spec["classes"]):
        return      # re-declaring a field another refinement depends on would make that refinement meaningless
    b = GR.build(spec)
    try:
        target = None
        for cls in b.classes.values():
            for fname, ty in fields_of(cls):
                if hasattr(ty, "__metadata__") and type(ty.__metadata__[0]).__name__ == "IntRange" and ty.__origin__ is int:
                    target = (cls, fname)
                    break
            if target:
                break
        if target is None:
            return
        try:
            ctx0 = Ctx(b, prop)
            workload(ctx0, R, ctx0.mind + 1, ["grow"], ["tree", "ge"], 2, 1)     # first use of the classes
        except Exception:
            return
        cls, fname = target
        lo = R.randint(100, 120)
        if prop == "C01":
            from geneticengine.grammar.metahandlers.vars import VarRange
            cls.__init__.__annotations__[fname] = Annotated[str, VarRange(["p", "q"])]    # the field changes its TYPE
        else:
            cls.__init__.__annotations__[fname] = Annotated[int, IntRange(lo, lo + 3)]
        ctx = Ctx(b, prop, meta=(prop == "C11"))                                   # extract again: new declaration
        workload(ctx, R, ctx.mind + 1, ["grow", "pt"], ["tree", "ge", "sge", "dsge"], 2, 2)
        batch.trace("redeclared/" + spec["id"], ctx.events,
                    {"k": "syn", "g": ctx.decl, "impl0": ctx.impl0, "feats": spec.get("feats", []), "annot": "objects", "expd": False})
        stats["events"] += len(ctx.events)
    finally:
        b.dispose()


class _Collect:
    def __init__(self):
        self.items = []

    def trace(self, tid, evs, cfg=None):
        self.items.append((tid, evs, cfg))


def _job(args):
    kind, spec, prop, tier, seed = args
    R = rng(seed, f"syn{prop}/{kind}/{spec['id']}")
    c, st = _Collect(), {"events": 0}
    if kind == "grammar":
        run_grammar(spec, prop, R, tier, c, st)
    else:
        redeclare_scenario(spec, prop, R, c, st)
    return c.items, st


def main():
    ap = argparse.ArgumentParser()
    ap.add_argument("--out", required=True)
    ap.add_argument("--tier", default="quick")
    ap.add_argument("--seed", type=int, default=0)
    ap.add_argument("--shards", type=int, default=1)
    ap.add_argument("--prop", default="C01")
    a = ap.parse_args()
    R = rng(a.seed, "syn" + a.prop)
    batch = Batch(a.prop, {"tier": a.tier, "seed": a.seed, "prop": a.prop})
    stats = {"events": 0}
    specs = GR.fixed_specs() + list(GR.RAW)
    n = {"C01": 40, "C02": 40, "C03": 30, "C10": 40, "C11": 40}.get(a.prop, 30)
    if a.tier != "quick":
        n *= 4 if a.prop == "C03" else 12      # C03 runs every grammar at seven limits: its traces are the largest
    specs += GR.family(R, n, FEATS_ALL)
    if a.prop == "C03":
        specs += GR.C03_EXTRA + [GR.CHAIN]
    if a.prop == "C10":
        specs += GR.C10_EXTRA
    if a.prop == "C11":
        specs += GR.C11_EXTRA
    if a.prop == "C02":
        specs += GR.C02_EXTRA
    jobs = [("grammar", spec) for spec in specs]
    if a.prop in ("C01", "C02", "C11"):
        jobs += [("grammar", spec) for spec in GR.POSTPONED]
    if a.prop in ("C01", "C02"):
        jobs += [("redeclare", spec) for spec in [x for x in specs if "source" not in x][: (14 if a.tier == "quick" else 120)]]
    # one job per grammar, each with its own random stream (derived from the seed and the grammar's id), run in worker
    # processes; results are collected in submission order, so the batch does not depend on scheduling
    import concurrent.futures as cf
    work = [(kind, spec, a.prop, a.tier, a.seed) for kind, spec in jobs]
    nworkers = 4 if a.tier == "quick" else 14
    with cf.ProcessPoolExecutor(max_workers=nworkers) as ex:
        for items, st in ex.map(_job, work, chunksize=1):
            for tid, evs, cfg in items:
                batch.trace(tid, evs, cfg)
            stats["events"] += st["events"]
    batch.traces = finalize(batch.traces)
    paths = batch.shards(a.out, a.shards)
    write_summary(a.out, {"batches": paths, "traces": len(batch.traces), "events": stats["events"]})


if __name__ == "__main__":
    main()
