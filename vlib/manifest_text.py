"""per-property wording for MANIFEST.json"""
NOT_APPLICABLE = {}
TEXT = {
 "C18": {
  "level": "TLC explores the GERandom specification (every primitive as a function of raw draws, one action per draw) for ALL raw draws over small ranges and checks every contract as an invariant (plus an as-coded variant that must fail, as a sensitivity guard); the real primitives of every RandomSource implementation and the deciders' integer draw are then driven through all raw draws of small ranges / boundary subsets of wide ones and every recorded call is validated by TLC against the same contract operators.",
  "ref": "DESIGN.md section 4 C18",
  "note": "raw generator is an oracle; wide ranges are covered at boundary values only; big ints/floats are rank-encoded (order facts); distribution shape of normalvariate is out of scope",
  "technique": "TLA+ model checking (TLC) of GERandom + exhaustive scripted-randomness trace validation against the spec's contract operators",
 },
}
