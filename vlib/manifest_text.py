"""per-property wording for MANIFEST.json"""
NOT_APPLICABLE = {}
TEXT = {
 "C18": {
  "level": "TLC explores the GERandom specification (every primitive as a function of raw draws, one action per draw) for ALL raw draws over small ranges and checks every contract as an invariant (plus an as-coded variant that must fail, as a sensitivity guard); the real primitives of every RandomSource implementation and the deciders' integer draw are then driven through all raw draws of small ranges / boundary subsets of wide ones and every recorded call is validated by TLC against the same contract operators.",
  "ref": "DESIGN.md section 4 C18",
  "note": "raw generator is an oracle; wide ranges are covered at boundary values only; big ints/floats are rank-encoded (order facts); distribution shape of normalvariate is out of scope",
  "technique": "TLA+ model checking (TLC) of GERandom + exhaustive scripted-randomness trace validation against the spec's contract operators",
 },
 "C05": {
  "level": "TLC validates the analysis operators of GEGrammar (exact minimum depth as a least fixpoint, recursive set, reachability) against the property's own definitions on the enumerated bounded language for every grammar of a TLC-generated family (362 grammars), then checks, for hundreds (quick) / thousands (thorough) of generated class hierarchies plus regression grammars instantiated as real classes, that the Grammar objects built by extract_grammar (both depth modes) and usable_grammar equal what GEGrammar computes from the declared hierarchy; mismatches are diagnosed by the smallest set of named as-coded deviations that explains them.",
  "ref": "DESIGN.md section 4 C05",
  "note": "family bounded (<= 3 abstract types, <= 7 concrete classes, <= 3 fields); both depth-counting modes for every form (MinDepthV / MinDepthXV); histories with an earlier extraction over a subset of the classes",
  "technique": "TLA+ model checking of the analysis operators against the enumerated language + replay of generated hierarchies into extract_grammar with TLC comparing the projections",
 },
 "C12": {
  "level": "TLC explores the tracker / search-loop specification (GEEvaluation, GEAlgorithms) over every fitness history of small value sets for the loop shapes of the four algorithms, single and multi objective, both directions, and checks BestIsBest, FlagExact and ReturnsBest as invariants; TLC-generated histories are then replayed through the real trackers and real searches and every recorded registration / return is validated by TLC against the same operators.",
  "ref": "DESIGN.md section 4 C12",
  "note": "integer-valued fitness plus infinities and magnitudes near 2e9; fitness functions that fail in mid-batch; entry points: the four algorithms, the self-configuring GP variants and geml.simplegp.SimpleGP; individuals identified through a delegating Representation; model histories bounded (length 5/7 over 3 values)",
  "technique": "TLA+ model checking (TLC) of the tracker state machine + replay of TLC-generated histories into the real trackers/searches with trace validation",
 },
 "C13": {
  "level": "TLC checks AtMostOnce / CountHonest on the search-loop specification for all histories and ParallelEqualsSequential on the parallel-evaluator specification for ALL worker schedules (with a completion-order pairing variant that must fail); real searches and direct calls of both evaluators on identical populations are recorded (fitness invocations logged across processes) and validated by TLC: recorded fitness = fitness function on the individual's program, aggregate rule, at most one invocation per individual, counter = invocations, parallel store = sequential store.",
  "ref": "DESIGN.md section 4 C13",
  "note": "real worker scheduling is perturbed, not controlled; exhaustive schedules are model-level only; fitness functions also return numpy scalars; twin and lazily declared problems share individuals",
  "technique": "TLA+ model checking (TLC) of evaluator/tracker + all-schedules model of the pool + trace validation of recorded evaluator calls",
 },
 "C14": {
  "level": "TLC checks the stop rule (verdict = budget predicate, nothing evaluated after a positive check, at most one batch between checks, total within [n, n+batch)) as invariants / action property and termination as a liveness property under weak fairness (plus a no-fresh-individual variant that must produce a lasso); every budget check of real searches (4 algorithms and the self-configuring GP variants, evaluation / target / multi-objective target / disjunction budgets and TimeBudget on a virtual clock, step compositions) is recorded through a delegating SearchBudget and validated by TLC.",
  "ref": "DESIGN.md section 4 C14",
  "note": "termination of the implementation is observed by a watchdog; wall-clock budgets only on a virtual clock (one second per fitness invocation)",
  "technique": "TLA+ model checking (TLC, safety + liveness) of the search loop + trace validation of recorded budget checks",
 },
 "C20": {
  "level": "TLC explores the recorder/file specification (GECsv: buffer, disk, flush, crash between any two actions) for all registration sequences of a small alphabet in both recording modes and checks AfterRegister, DiskIsPrefix and that a crash between registrations loses nothing (a flush-on-best-only variant must fail); real recorders in 54 (quick) configurations are driven with evaluation histories, the file is re-read from disk after every registration and validated by TLC against the expected table; SIGKILLed runs are validated as prefixes.",
  "ref": "DESIGN.md section 4 C20",
  "note": "kill points sampled; cells compared as strings; execution-time cell unconstrained",
  "technique": "TLA+ model checking (TLC) of the buffered file with crash + trace validation of the on-disk bytes after every registration",
 },
 "C15": {
  "level": "TLC enumerates the configuration space itself (every depth-one composition of the step algebra x weights x population sizes) and checks PopSizeInvariant on the length semantics of GESteps, where a parallel step may split k in ANY way (the as-coded compute_ranges variant must fail); the same TLC-enumerated compositions plus sampled deeper nestings are instantiated with the real combinators and probe-wrapped real leaves on list / Population / one-shot-iterator inputs, whole GP runs and every initialiser (injected populations of every length) are recorded, and TLC validates every length event.",
  "ref": "DESIGN.md section 4 C15",
  "note": "quick covers a rotating third of the depth-one space per seed; nesting depth <= 3; runs started through SimpleGP included",
  "technique": "TLA+ model checking (TLC) of the step-length algebra + replay of TLC-enumerated compositions into the real step objects with trace validation",
 },
 "C16": {
  "level": "TLC explores every population of <= 3 (4) individuals over 3 fitness values, both directions, every k and every order among equals, and checks EliteOK (exactly k, sub-bag, nobody excluded strictly better) - a worst-first variant must fail; the real ElitismStep is applied for every k to populations with ties and duplicates in three input forms and GP runs record per-generation fitness with the observed elite slots; TLC validates EliteOK and BestMonotone on every event.",
  "ref": "DESIGN.md section 4 C16",
  "note": "monotonicity antecedent = at least one elite slot reserved (for an exclusive parallel step: and the whole generation shown to the elitism step); SimpleGP runs take the slots from the caller's configuration",
  "technique": "TLA+ model checking (TLC) of top-k selection + trace validation of real elitism applications and GP runs",
 },
 "C17": {
  "level": "TLC explores all draws of tournament and lexicase selection on the model (MC_Select) and checks TournamentOK / LexicaseOK / membership; the real selection steps are driven through EVERY outcome of their random draws for small populations by a scripted source (thousands of outcomes), each outcome recorded as a trace (draws, shuffles, winners) and validated by TLC: winner is a member and a participant, no participant strictly better; lexicase winner is an available candidate, a fresh shuffle preceded it, and it survives the (epsilon) filter for that order.",
  "ref": "DESIGN.md section 4 C17",
  "note": "exhaustive over draws only for populations <= 3 (4); larger cases not covered",
  "technique": "TLA+ model checking (TLC) + exhaustive scripted-randomness enumeration of the real selection steps validated trace by trace",
 },
 "C01": {
  "level": "TLC explores the create_node derivation machine (GESynthesis) for every grammar of a TLC-enumerated family x grow / full / PI-grow x depth limits and checks WellTypedWhenDone as an invariant, and the progressively-terminal decider (no limit) for termination (MC_SynPT: bounded depth, the rule before its repair must fail); every program the real library creates, maps, mutates or crosses over with all five representations (fixed + generated grammars) is projected structurally and TLC evaluates WellTyped against the declared class hierarchy, rejects foreign / lazy values and non-library exceptions.",
  "ref": "DESIGN.md section 4 C01",
  "note": "typing oracle = declared classes; user-defined metahandlers other than the shipped / test-suite ones not modelled; entry points beyond the representations: population initialisers (warm start from programs and Individuals), CooperativeGP and SimpleGP front ends with every representation name",
  "technique": "TLA+ model checking (TLC) of the derivation machine + trace validation of every produced program with the WellTyped predicate evaluated by TLC",
 },
 "C02": {
  "level": "the derivation machine's invariant includes RefOK for every generated value; every program produced by the real code is checked by TLC against the documented predicate of each shipped metahandler at every refined position (top level, in lists, tuples, unions, dependent on actual sibling values), and validate() is called on generated values and must accept them.",
  "ref": "DESIGN.md section 4 C02",
  "note": "stack representation: open finding (refinements declared as objects are never consulted); with postponed annotations the stack machine is judged like the others",
  "technique": "TLA+ model checking (TLC) + trace validation with RefOK evaluated by TLC",
 },
 "C03": {
  "level": "TLC checks DepthOK, NoStuck and RejectedOnlyBelowMin on the derivation machine for all derivations of the family grammars at limits min-1..min+1 with three deciders; real deciders / representations are exercised at every limit from reported minimum - 1 upwards (creation, mutation and crossover chains) and TLC judges: no error at feasible limits, depth (recomputed from the structure) within the limit, infeasible limits rejected by a library error before any random draw.",
  "ref": "DESIGN.md section 4 C03",
  "note": "threshold = minimum reported by the implementation",
  "technique": "TLA+ model checking (TLC) of the derivation machine + trace validation of depth-limited creation at every limit",
 },
 "C04": {
  "level": "TLC proves on the model that exact-minimum-depth filtering gives Derive(grow) = Lang, Derive(full|pigrow) inside Lang for 250 grammars x limits (the as-coded list deviation must break GrowExact); the real create_genotype is driven through ALL sequences of random decisions (thousands of programs) and TLC compares the resulting SETS with Lang / FullLang computed from the declared grammar alone.",
  "ref": "DESIGN.md section 4 C04",
  "note": "finite-choice grammars, capped decision trees (an enumeration over budget is reported as an incomplete set); default depth mode; histories: re-declared refinements, concrete-only extraction, representations lent to initialisers",
  "technique": "TLA+ model checking (TLC) + exhaustive scripted-randomness enumeration with set comparison inside TLC",
 },
 "C10": {
  "level": "the grammar is a variable of the derivation machine and TLC checks the action property [][G' = G]; after real workloads that fail and backtrack the Grammar object is re-projected (productions in order, distances, recursive set, symbols, weights) and TLC compares it with the projection taken before; the creatable set is enumerated exhaustively before and after such a workload on the same object and compared by TLC.",
  "ref": "DESIGN.md section 4 C10",
  "note": "workloads sampled; creatable set compared on finite-choice grammars and the dependent-context grammar, also through ONE decider object that went through the failing operations; the projection includes the abstract-distance table",
  "technique": "TLA+ action property (TLC) + trace validation of grammar projections + exhaustive creatable-set comparison",
 },
 "C11": {
  "level": "GEMeta defines node count, distance, weighted size and type index independently on the term structure; every node and list of every program produced by the real code (all deciders, tree / GE / SGE / dSGE, after mutation and crossover) carries its recorded labels in the projection and TLC compares them with the structural definitions at every node.",
  "ref": "DESIGN.md section 4 C11",
  "note": "both depth-counting modes (expansion mode also on the raw-source grammars: refined non-terminal fields, user-written list refinements); stack representation excluded (attaches no labels); tuples opaque",
  "technique": "TLA+ structural definitions evaluated by TLC on projected programs (trace validation) + derivation-machine model",
 },
 "C06": {
  "level": "GEVariation defines tree recombination declaratively (one subterm of a parent replaced by a subterm of the other) and TLC checks, for every parent pair of small languages and every outcome, that the linear-time recogniser used on traces accepts it and that typed offspring stays refinement-correct and depth-bounded (a fresh-tree variant must be rejected); recorded crossovers and mutations of all five representations are validated by TLC: tree children are recombinations of their parents, every gene of a linear / structured child comes from a parent at the same locus, point mutations change at most one gene and keep shape and length.",
  "ref": "DESIGN.md section 4 C06",
  "note": "tree crossover with an abstract starting symbol: open finding",
  "technique": "TLA+ model checking (TLC) of the recombination definitions + trace validation of recorded variation calls",
 },
 "C07": {
  "level": "TLC explores all interleavings of create / map / draw / mutate over <= 3 genotypes (GEMapping) and checks MapStable, MapDoesNotDraw and append-only gene extension, for fixed-length and dynamically extended genotypes (an impure variant - the pinned GE / SGE behaviour - must fail); TLC-generated interleavings are replayed on the real GE / SGE / dSGE / stack representations with several deciders and grammars with refined fields, around a counting wrapper of the shared source, and TLC validates every mapping event: same program as the first mapping of that genotype, no raw draw on the shared source other than the genes dSGE appends, genotype unchanged except by such an extension.",
  "ref": "DESIGN.md section 4 C07",
  "note": "interleavings sampled beyond length 2; purity is judged by raw-draw counts on the shared source; deciders that were used directly before a mapping borrows them; refinements wider than the codon range",
  "technique": "TLA+ model checking (TLC) of mapping/stream interleavings + replay of TLC-generated interleavings with trace validation",
 },
 "C19": {
  "level": "TLC enumerates every weight assignment over {unweighted,0,1,2,6} for two nested non-terminals and checks NonNegative, SumToOne, RatiosKept and Idempotent on the normalisation step function (a no-reset-per-rule variant must fail) and the zero-weight contract of the weighted choice for all raw draws (GERandom); weighted class hierarchies are instantiated with fresh classes, extracted three times and the projected weights validated by TLC against the declared weights; ProgressivelyTerminalDecider and the stack representation's weighted choice are driven through all boundary raw draws and TLC checks that no zero-weight production is chosen while a positive one is offered.",
  "ref": "DESIGN.md section 4 C19",
  "note": "tolerance 2e-4; all-zero rules excluded; GEWeightStore: every history of extractions over subsets of shared classes and re-declarations (normalise-from-stored must fail); real history: a smaller grammar extracted first",
  "technique": "TLA+ model checking (TLC) of the normalisation + replay of weighted hierarchies and exhaustive scripted draws of the weight-aware choosers, judged by TLC",
 },
 "C09": {
  "level": "GEHeap states the discipline (operators allocate, existing objects are only ever completed: labels once, fitness once) and TLC checks the action property HeapAppendOnly over all allocation / labelling / caching sequences on a 4-object heap (a write-in-place variant must fail); for every representation, chains of real mutate / crossover calls and ten (forty) generations of real step compositions are recorded as structural snapshots of all inputs and of every object ever seen, and TLC checks each re-observed object against its registered snapshot (program, node metadata incl. synthesis context, genes, cached fitness, phenotype cache).",
  "ref": "DESIGN.md section 4 C09",
  "note": "a late write is localised to a window of 10 operations",
  "technique": "TLA+ action property (TLC) on an object heap + trace validation of structural snapshots over the whole object registry",
 },
 "C08": {
  "level": "GEDeterminism is a self-composition: two runs consume the same raw stream while the environment picks an arbitrary iteration order of the symbol collection per run; TLC checks Agree for all orders when the design iterates canonically and must find the divergence for raw set-order iteration; real seeded searches (2-4 algorithms x 5 representations x grammars with refined / string fields) are run twice in-process and in fresh interpreters with different PYTHONHASHSEED, allocation padding and import order, and TLC validates that every run evaluates the same sequence of programs and returns the same best.",
  "ref": "DESIGN.md section 4 C08",
  "note": "process environments are sampled, not enumerated (hash seed, padding before class definitions, import order, allocator holes released in a per-process order); few fitness levels so that ties reach the elitism cut",
  "technique": "TLA+ self-composition model checked by TLC + trace validation of merged evaluation sequences from separate processes",
 },
}
