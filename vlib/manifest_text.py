"""per-property wording for MANIFEST.json"""
NOT_APPLICABLE = {}
TEXT = {
 "C18": {
  "level": "TLC explores the GERandom specification (every primitive as a function of raw draws, one action per draw) for ALL raw draws over small ranges and checks every contract as an invariant (plus an as-coded variant that must fail, as a sensitivity guard); the real primitives of every RandomSource implementation and the deciders' integer draw are then driven through all raw draws of small ranges / boundary subsets of wide ones and every recorded call is validated by TLC against the same contract operators.",
  "ref": "DESIGN.md section 4 C18",
  "note": "raw generator is an oracle; wide ranges are covered at boundary values only; big ints/floats are rank-encoded (order facts); distribution shape of normalvariate is out of scope",
  "technique": "TLA+ model checking (TLC) of GERandom + exhaustive scripted-randomness trace validation against the spec's contract operators",
 },
 "C05": {
  "level": "TLC validates the analysis operators of GEGrammar (exact minimum depth as a least fixpoint, recursive set, reachability) against the property's own definitions on the enumerated bounded language for every grammar of a TLC-generated family (362 grammars), then checks, for hundreds (quick) / thousands (thorough) of generated class hierarchies plus regression grammars instantiated as real classes, that the Grammar objects built by extract_grammar (both depth modes) and usable_grammar equal what GEGrammar computes from the declared hierarchy; mismatches are diagnosed by the smallest set of named as-coded deviations that explains them.",
  "ref": "DESIGN.md section 4 C05",
  "note": "family bounded (<= 3 abstract types, <= 7 concrete classes, <= 3 fields); expansion-depthing minima judged on list/union/tuple-free grammars only",
  "technique": "TLA+ model checking of the analysis operators against the enumerated language + replay of generated hierarchies into extract_grammar with TLC comparing the projections",
 },
}
