"""Orchestration shared by every check: TLC runs, driver runs, verdict merging, evidence, exit codes.

exit 0: property held on everything explored (KNOWN-FINDING lines allowed)
exit 1: at least one violation not listed in known_findings.json (VIOLATION line printed)
exit 2: machinery failure (TLC crashed, driver crashed, model-level run failed, vacuity guard)
"""
from __future__ import annotations

import concurrent.futures as cf
import hashlib
import json
import os
import re
import shutil
import subprocess
import sys
import time

VERIF = os.path.dirname(os.path.dirname(os.path.abspath(__file__)))
SPEC = os.path.join(VERIF, "spec")
OUT = os.path.join(VERIF, "out")
EVID = os.environ.get("VERIF_EVID", os.path.join(VERIF, "evidence"))
REPO = os.environ.get("VERIF_REPO", "/repo")
PY = os.environ.get("VERIF_PY", "/venv/bin/python")
TLC_CP = "/opt/veriftools/tla/tla2tools.jar:/opt/veriftools/tla/CommunityModules-deps.jar"


class Machinery(Exception):
    pass


def log(*a):
    print(*a, flush=True)


def run_tlc(module, cfg, workdir, env=None, workers=1, timeout=600, heap="3g", extra=(), simulate=None):
    """run TLC on spec/<module>.tla with spec/<cfg>; returns dict(rc, out, generated, distinct, depth, ok)"""
    os.makedirs(workdir, exist_ok=True)
    meta = os.path.join(workdir, "meta_" + module + "_" + os.path.basename(cfg).replace(".cfg", ""))
    shutil.rmtree(meta, ignore_errors=True)
    e = dict(os.environ)
    e["JAVA_TOOL_OPTIONS"] = "-Xss512m"
    if env:
        e.update(env)
    cmd = ["timeout", str(timeout), "java", "-XX:+UseParallelGC", f"-Xmx{heap}", "-cp", TLC_CP, "tlc2.TLC",
           "-workers", str(workers), "-noGenerateSpecTE", "-metadir", meta, "-config", cfg]
    if simulate:
        cmd += ["-simulate", simulate]
    cmd += list(extra) + [module + ".tla"]
    t0 = time.time()
    p = subprocess.run(cmd, cwd=SPEC, env=e, stdout=subprocess.PIPE, stderr=subprocess.STDOUT, text=True)
    out = p.stdout
    shutil.rmtree(meta, ignore_errors=True)
    res = {"rc": p.returncode, "out": out, "wall": time.time() - t0, "module": module, "cfg": cfg}
    m = re.search(r"(\d+) states generated, (\d+) distinct states found", out)
    res["generated"] = int(m.group(1)) if m else 0
    res["distinct"] = int(m.group(2)) if m else 0
    m = re.search(r"depth of the complete state graph search is (\d+)", out)
    res["depth"] = int(m.group(1)) if m else 0
    res["ok"] = p.returncode == 0 and ("No error has been found" in out or simulate is not None)
    return res


def tlc_error_excerpt(out, n=40):
    lines = [x for x in out.splitlines() if not re.match(r"^(Linting|Semantic|Parsing|Picked up)", x)]
    idx = [i for i, x in enumerate(lines) if "Error" in x]
    if idx:
        return "\n".join(lines[idx[0]: idx[0] + n])
    return "\n".join(lines[-n:])


def run_model(module, cfg, workdir, workers=8, timeout=900, expect_violation=None, env=None, heap="6g", extra=()):
    """model-level run; must succeed (or, for as-coded variants, must violate the named invariant)"""
    r = run_tlc(module, cfg, workdir, env=env, workers=workers, timeout=timeout, heap=heap, extra=extra)
    if expect_violation is None:
        if not r["ok"]:
            raise Machinery(f"model-level run {module}/{cfg} failed (rc={r['rc']}):\n" + tlc_error_excerpt(r["out"]))
    else:
        if r["ok"] or expect_violation not in r["out"]:
            raise Machinery(f"as-coded variant {module}/{cfg} did not exhibit {expect_violation} "
                            f"(the model lost its sensitivity):\n" + tlc_error_excerpt(r["out"]))
    return r


def run_driver(module, outdir, tier, seed, shards=1, timeout=3000, extra=()):
    shutil.rmtree(outdir, ignore_errors=True)
    os.makedirs(outdir, exist_ok=True)
    e = dict(os.environ)
    e["PYTHONPATH"] = REPO + os.pathsep + VERIF
    e["PYTHONDONTWRITEBYTECODE"] = "1"
    e["PYTHONHASHSEED"] = e.get("PYTHONHASHSEED", "0")
    cmd = ["timeout", str(timeout), PY, "-B", "-m", module, "--out", outdir, "--tier", tier, "--seed", str(seed),
           "--shards", str(shards)] + list(extra)
    t0 = time.time()
    p = subprocess.run(cmd, cwd=VERIF, env=e, stdout=subprocess.PIPE, stderr=subprocess.STDOUT, text=True)
    if p.returncode != 0:
        raise Machinery(f"driver {module} failed (rc={p.returncode}):\n" + p.stdout[-4000:])
    with open(os.path.join(outdir, "driver_summary.json")) as f:
        s = json.load(f)
    s["wall"] = time.time() - t0
    s["stdout"] = p.stdout[-2000:]
    return s


def validate_batches(trace_module, batches, workdir, cfg=None, timeout=1800, parallel=16, heap="3g"):
    """run the trace spec on every batch file (one TLC process each); merge verdicts"""
    cfg = cfg or trace_module + ".cfg"

    def one(i_path):
        i, path = i_path
        vpath = path.replace(".json", ".verdicts.json")
        if os.path.exists(vpath):
            os.remove(vpath)
        r = run_tlc(trace_module, cfg, os.path.join(workdir, f"tlc{i:02d}"), workers=1, timeout=timeout, heap=heap,
                    env={"BATCH": path, "VERDICTS": vpath})
        if not r["ok"] or not os.path.exists(vpath):
            raise Machinery(f"trace validation {trace_module} on {path} failed (rc={r['rc']}):\n"
                            + tlc_error_excerpt(r["out"]))
        with open(vpath) as f:
            v = json.load(f)
        if v["accepted"] + len(v["rejected"]) != v["n"]:
            raise Machinery(f"trace validation {trace_module}: {v['n']} traces, only "
                            f"{v['accepted'] + len(v['rejected'])} verdicts")
        v["states"] = r["generated"]
        v["distinct"] = r["distinct"]
        v["batch"] = path
        return v

    with cf.ThreadPoolExecutor(max_workers=parallel) as ex:
        vs = list(ex.map(one, list(enumerate(batches))))
    merged = {"accepted": sum(v["accepted"] for v in vs), "n": sum(v["n"] for v in vs), "rejected": [],
              "states": sum(v["states"] for v in vs), "distinct": sum(v["distinct"] for v in vs)}
    for v in vs:
        for r in v["rejected"]:
            r["batch"] = v["batch"]
            merged["rejected"].append(r)
    return merged


# ---------------------------------------------------------------------------------------------
# known findings

def load_known():
    p = os.path.join(VERIF, "known_findings.json")
    if not os.path.exists(p):
        return {"findings": [], "fixed": []}
    with open(p) as f:
        return json.load(f)


def match_known(known, pid, clause, attrs):
    for k in known["findings"]:
        if k["property"] == pid and k["clause"] == clause and list(k["attrs"]) == list(attrs):
            return k
    return None


def find_trace(batch_path, tid):
    with open(batch_path) as f:
        b = json.load(f)
    for t in b["traces"]:
        if t["id"] == tid:
            return t, b
    return None, b


def write_replay(pid, tier, seed, driver, trace_module, rej, clause_entry, extra=None):
    os.makedirs(os.path.join(OUT, "replay"), exist_ok=True)
    t, b = find_trace(rej["batch"], rej["tid"]) if "batch" in rej else (None, {})
    h = hashlib.sha1((pid + rej["tid"] + clause_entry["c"] + str(clause_entry["a"])).encode()).hexdigest()[:12]
    path = os.path.join(OUT, "replay", f"{pid}-{h}.json")
    d = {"property": pid, "tier": tier, "seed": seed, "driver": driver, "trace_module": trace_module,
         "trace_id": rej["tid"], "clause": clause_entry["c"], "attrs": clause_entry["a"],
         "event_index": clause_entry["l"], "all_failures": rej["bad"], "trace": t,
         "shared": {k: v for k, v in (b or {}).items() if k not in ("traces",)}}
    if extra:
        d.update(extra)
    with open(path, "w") as f:
        json.dump(d, f, indent=1)
    return path


def classify(pid, tier, seed, driver, trace_module, merged, known=None):
    """returns (violations, known_hits); prints KNOWN-FINDING / VIOLATION lines"""
    known = known or load_known()
    viol, hits = {}, {}
    for rej in merged["rejected"]:
        for b in rej["bad"]:
            key = (b["c"], tuple(b["a"]))
            k = match_known(known, pid, b["c"], b["a"])
            if k is not None:
                hits.setdefault(key, {"k": k, "n": 0, "first": (rej, b)})["n"] += 1
            else:
                viol.setdefault(key, {"n": 0, "first": (rej, b)})["n"] += 1
    for key, h in sorted(hits.items()):
        log(f"KNOWN-FINDING: property={pid} {key[0]} {list(key[1])} x{h['n']}: {h['k']['what']}")
    paths = []
    for key, v in sorted(viol.items()):
        rej, b = v["first"]
        path = write_replay(pid, tier, seed, driver, trace_module, rej, b)
        paths.append(path)
        log(f"VIOLATION property={pid} replay={path}")
        log(f"  clause={key[0]} attrs={list(key[1])} occurrences={v['n']} first: trace={rej['tid']} event={b['l']}")
    return viol, hits, paths


# ---------------------------------------------------------------------------------------------
# evidence

def write_evidence(pid, tier, seed, coverage, wall, violations, assumptions):
    os.makedirs(EVID, exist_ok=True)
    ev = {"property_id": pid, "tier": tier, "seed": seed, "level": "model_checking", "coverage": coverage,
          "assumptions": assumptions, "wall_s": round(wall, 2), "violations": violations}
    with open(os.path.join(EVID, pid + ".json"), "w") as f:
        json.dump(ev, f, indent=1)
    return ev


def sample_traces(batches, k=3, max_events=6):
    out = []
    for p in batches[:1]:
        with open(p) as f:
            b = json.load(f)
        step = max(1, len(b["traces"]) // k)
        for t in b["traces"][::step][:k]:
            out.append({"id": t["id"], "cfg": t.get("cfg"), "events": t["events"][:max_events],
                        "n_events": len(t["events"])})
    return out


def distinct_count(batches):
    """distinct traces by content (ids ignored) that contain at least one event"""
    seen = set()
    n = 0
    for p in batches:
        with open(p) as f:
            b = json.load(f)
        for t in b["traces"]:
            n += 1
            if t["events"]:
                seen.add(hashlib.sha1(json.dumps([t.get("cfg"), t["events"]], sort_keys=True).encode()).hexdigest())
    return n, len(seen)
