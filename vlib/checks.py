"""Registry of checks: which model runs, driver and trace specification decide each property."""
from __future__ import annotations

import os

from vlib import runner as R


def std_run(pid, tier, seed, work, c):
    """model-level TLC runs + driver (real code) + trace validation by TLC + classification"""
    states = trans = 0
    model_info = []
    for m in c.get("models", []):
        if tier == "quick" and m.get("thorough_only"):
            continue
        cfg = m["cfg"] if tier == "quick" or "cfg_thorough" not in m else m["cfg_thorough"]
        r = R.run_model(m["module"], cfg, os.path.join(work, "model"), workers=m.get("workers", 8),
                        timeout=m.get("timeout", 900), expect_violation=m.get("expect_violation"),
                        extra=m.get("extra", ()))
        model_info.append({"module": m["module"], "cfg": cfg, "distinct_states": r["distinct"],
                           "states_generated": r["generated"], "depth": r["depth"],
                           "expect_violation": m.get("expect_violation"), "wall_s": round(r["wall"], 1)})
        if m.get("expect_violation") is None:
            states += r["distinct"]
            trans += r["generated"]
    shards = c.get("shards", {}).get(tier, 4)
    gen_args = run_generators(c, tier, work, model_info)
    os.environ["VERIF_TMP"] = work
    return _std_run_rest(pid, tier, seed, work, c, states, trans, model_info, shards, gen_args)


def run_generators(c, tier, work, model_info=None):
    """TLC as generator of cases (histories, compositions, interleavings); returns the driver arguments"""
    model_info = model_info if model_info is not None else []
    gen_args = []
    for gspec in c.get("generators", []):
        gout = os.path.join(work, gspec["out"])
        gcfg = gspec["cfg"] if tier == "quick" or "cfg_thorough" not in gspec else gspec["cfg_thorough"]
        r = R.run_tlc(gspec["module"], gcfg, os.path.join(work, "gen"), env={gspec["env"]: gout},
                      workers=1, timeout=gspec.get("timeout", 600))
        if not r["ok"] or not os.path.exists(gout):
            raise R.Machinery(f"generator {gspec['module']} failed:\n" + R.tlc_error_excerpt(r["out"]))
        model_info.append({"module": gspec["module"], "cfg": gcfg, "role": "TLC-generated cases for replay",
                           "wall_s": round(r["wall"], 1)})
        gen_args += [gspec["arg"], gout]
    return gen_args


def _std_run_rest(pid, tier, seed, work, c, states, trans, model_info, shards, gen_args):
    merged = {"accepted": 0, "n": 0, "rejected": [], "states": 0, "distinct": 0}
    batches_all = []
    drv_summaries = []
    advisory = []
    for d in c["drivers"]:
        s = R.run_driver(d["module"], os.path.join(work, "drv_" + d["module"].split(".")[-1]), tier, seed,
                         shards=shards, timeout=d.get("timeout", 3000), extra=list(d.get("args", [])) + gen_args)
        drv_summaries.append(s)
        mg = R.validate_batches(d["trace"], s["batches"], os.path.join(work, "val_" + d["trace"]),
                                timeout=d.get("tlc_timeout", 1800))
        for k in ("accepted", "n", "states", "distinct"):
            merged[k] += mg[k]
        for rej in mg["rejected"]:
            rej["driver"] = d["module"]
            rej["trace_module"] = d["trace"]
        if d.get("advisory"):
            # conformance with parts of the specification that go BEYOND the property (exact mapping function,
            # decision-level derivation): deviations are reported, never turned into a verdict on the property
            sigs = {}
            for rej in mg["rejected"]:
                for b in rej["bad"]:
                    sigs[(b["c"], tuple(b["a"]))] = sigs.get((b["c"], tuple(b["a"])), 0) + 1
            for (cl, at), n in sorted(sigs.items()):
                R.log(f"SPEC-DEVIATION (advisory, not a verdict on {pid}): {cl} {list(at)} x{n} [{d['trace']}]")
            advisory.append({"trace_module": d["trace"], "traces": mg["n"], "accepted": mg["accepted"],
                             "deviations": [{"clause": k[0], "attrs": list(k[1]), "occurrences": v} for k, v in sigs.items()]})
        else:
            merged["rejected"] += mg["rejected"]
        batches_all += s["batches"]
    viol, hits, paths = {}, {}, []
    known = R.load_known()
    by_drv = {}
    for rej in merged["rejected"]:
        by_drv.setdefault((rej["driver"], rej["trace_module"]), []).append(rej)
    for (drv, tm), rejs in by_drv.items():
        v, h, p = R.classify(pid, tier, seed, drv, tm, {"rejected": rejs}, known)
        viol.update(v)
        hits.update(h)
        paths += p
    ntr, ndistinct = R.distinct_count(batches_all)
    cov = {
        "states": max(states, 1) if c.get("models") else merged["distinct"],
        "transitions": max(trans, 1) if c.get("models") else merged["states"],
        "traces_validated_against_impl": merged["n"],
        "trace_events_validated": sum(s.get("events", 0) for s in drv_summaries),
        "trace_spec_states": merged["distinct"],
        "traces_accepted": merged["accepted"],
        "traces_rejected": len(merged["rejected"]),
        "evaluations": ntr,
        "distinct_nontrivial": ndistinct,
        "rule": c.get("rule", "distinct recorded traces (by content) with at least one event"),
        "samples": R.sample_traces(batches_all),
        "model_runs": model_info,
        "driver": [{k: v for k, v in s.items() if k not in ("batches", "stdout")} for s in drv_summaries],
        "known_findings_seen": [{"clause": k[0], "attrs": list(k[1]), "occurrences": h["n"]} for k, h in hits.items()],
        "violation_signatures": [{"clause": k[0], "attrs": list(k[1]), "occurrences": v["n"]} for k, v in viol.items()],
        "exhaustive": bool(c.get("exhaustive", False)),
        "advisory_spec_conformance": advisory,
    }
    return {"coverage": cov, "violations": len(viol), "known": len(hits), "assumptions": c.get("assumptions", [])}


CHECKS = {}

CHECKS["C18"] = {
    "title": "random primitives honour their contracts for every source",
    "run": std_run,
    "models": [
        {"module": "MC_C18", "cfg": "MC_C18.cfg"},
        {"module": "MC_C18", "cfg": "MC_C18_ascoded.cfg", "expect_violation": "is violated"},
    ],
    "drivers": [{"module": "harness.drv_c18", "trace": "Trace_C18"}],
    "shards": {"quick": 2, "thorough": 12},
    "rule": "one trace per (source class, primitive, argument set) or per gene list / seed; an event is one real "
            "call with its arguments, raw draws and result; distinct = distinct traces by content",
    "assumptions": [
        "the Mersenne Twister is an oracle: model-level checking quantifies over all raw draws, the scripted source "
        "enumerates all raw draws of ranges <= 64 values and a boundary subset of wider ranges",
        "integers beyond 2^30 and floats are rank-encoded per event (order isomorphism); contracts are order facts",
        "normalvariate is only checked for determinism (same seed, same stream)",
    ],
}

CHECKS["C05"] = {
    "title": "grammar analysis is exact",
    "run": std_run,
    "models": [
        {"module": "MC_C05", "cfg": "MC_C05.cfg", "workers": 12, "timeout": 600},
        {"module": "MC_C05", "cfg": "MC_C05_deep.cfg", "workers": 12, "timeout": 600},
    ],
    "drivers": [{"module": "harness.drv_c05", "trace": "Trace_C05"}],
    "shards": {"quick": 2, "thorough": 14},
    "rule": "one trace per class hierarchy (fixed regression grammars + members of the generated family); events are the "
            "projections of the Grammar objects built by extract_grammar in both depth modes and by usable_grammar; "
            "distinct = distinct hierarchies by content",
    "assumptions": [
        "the declared hierarchy is read from the Python classes with typing.get_type_hints, independently of extract_grammar",
        "minimum depths in expansion-depthing mode are only judged on grammars made of symbols and base types",
        "the usable sub-grammar may additionally register abstract ancestors of reachable classes",
    ],
}

_SEARCH_GEN = [{"module": "Gen_Search", "cfg": "Gen_Search.cfg", "cfg_thorough": "Gen_Search_thorough.cfg",
                "env": "GEN_OUT", "out": "gen_search.json", "arg": "--gen"}]
_SEARCH_MODELS = [
    {"module": "MC_Search", "cfg": "MC_Search_quick.cfg", "cfg_thorough": "MC_Search.cfg", "workers": 12, "timeout": 1500},
]
_SEARCH_ASSUME = [
    "fitness functions used by the drivers are integer valued, so aggregates are exact in TLC",
    "individuals are identified by a token stamped on their phenotype by a delegating Representation (public API)",
    "fitness histories replayed into the code are generated by TLC (Gen_Search): all sequences over 3 (4) values up "
    "to length 5 (4) in the quick tier, 7 (5) in the thorough tier",
]

CHECKS["C12"] = {
    "title": "the reported best really is the best",
    "run": std_run,
    "generators": _SEARCH_GEN,
    "models": _SEARCH_MODELS,
    "drivers": [{"module": "harness.drv_search", "trace": "Trace_Search", "args": ["--prop", "C12"]}],
    "shards": {"quick": 2, "thorough": 12},
    "rule": "one trace per tracker session (a TLC-generated fitness history x direction x batch partition) or per real "
            "search run (algorithm x budget x step composition x representation); distinct by content",
    "assumptions": _SEARCH_ASSUME,
}
CHECKS["C13"] = {
    "title": "fitness from the phenotype, once, counted honestly; parallel = sequential",
    "run": std_run,
    "generators": _SEARCH_GEN,
    "models": _SEARCH_MODELS + [
        {"module": "MC_Parallel", "cfg": "MC_Parallel.cfg", "workers": 4},
        {"module": "MC_Parallel", "cfg": "MC_Parallel_completion.cfg", "workers": 4, "expect_violation": "is violated"},
    ],
    "drivers": [{"module": "harness.drv_search", "trace": "Trace_Search", "args": ["--prop", "C13"]}],
    "shards": {"quick": 2, "thorough": 12},
    "rule": "as C12, plus direct calls of both evaluators on identical populations (mixed evaluated/new members, a "
            "duplicated object, singletons) with a program-determined fitness logged across worker processes",
    "assumptions": _SEARCH_ASSUME + ["real worker scheduling is perturbed by process start-up only; exhaustiveness over "
                                     "schedules is model-level (GEParallel, all interleavings of <= 4 tasks on <= 3 workers)"],
}
CHECKS["C14"] = {
    "title": "searches terminate and stop at the first budget check after the budget is met",
    "run": std_run,
    "generators": _SEARCH_GEN,
    "models": _SEARCH_MODELS + [
        {"module": "MC_Search", "cfg": "MC_Search_live_quick.cfg", "cfg_thorough": "MC_Search_live.cfg", "workers": 12,
         "timeout": 1500},
        {"module": "MC_Search", "cfg": "MC_Search_nofresh.cfg", "workers": 4,
         "expect_violation": "Temporal property Terminates was violated"},
    ],
    "drivers": [{"module": "harness.drv_search", "trace": "Trace_Search", "args": ["--prop", "C14"]}],
    "shards": {"quick": 2, "thorough": 12},
    "rule": "as C12; every budget check is an event (count, verdict, best component rank-encoded with the target "
            "thresholds); a watchdog turns 40 consecutive checks without progress of the counter into a lasso event",
    "assumptions": _SEARCH_ASSUME + ["termination on the implementation is observed through a watchdog (40 checks without "
                                     "progress), the liveness property itself is checked on the model under weak fairness"],
}

CHECKS["C20"] = {
    "title": "the CSV log is faithful and a valid prefix at every interruption point",
    "run": std_run,
    "models": [
        {"module": "MC_C20", "cfg": "MC_C20_everyrow_TRUE.cfg", "workers": 4},
        {"module": "MC_C20", "cfg": "MC_C20_everyrow_FALSE.cfg", "workers": 4},
        {"module": "MC_C20", "cfg": "MC_C20_onbestonly_FALSE.cfg", "workers": 4, "expect_violation": "is violated"},
    ],
    "drivers": [{"module": "harness.drv_c20", "trace": "Trace_C20"}],
    "shards": {"quick": 1, "thorough": 8},
    "rule": "one trace per recorder configuration x evaluation history (objectives 1-3 with distinct per-component "
            "values, default / custom fields, 0-2 extra fields, direct and through SimpleGP.build_recorder, both "
            "recording modes); the file is re-read through an independent descriptor after every registration; "
            "plus runs SIGKILLed at random points whose surviving file is validated as a prefix",
    "assumptions": [
        "the 'Execution Time' cell is unconstrained; all other cells are compared as strings with the value computed "
        "from the registered individual",
        "kill points are sampled in time (6 / 200 kills), the model covers a crash between any two recorder actions",
    ],
}

_STEPS_GEN = [{"module": "Gen_Steps", "cfg": "Gen_Steps.cfg", "cfg_thorough": "Gen_Steps_thorough.cfg",
               "env": "GEN_OUT", "out": "gen_steps.json", "arg": "--gen"}]
CHECKS["C15"] = {
    "title": "population size is invariant across generations and step compositions",
    "run": std_run,
    "generators": _STEPS_GEN,
    "models": [
        {"module": "MC_Steps", "cfg": "MC_Steps.cfg", "cfg_thorough": "MC_Steps_thorough.cfg", "workers": 12, "timeout": 1500},
        {"module": "MC_Steps", "cfg": "MC_Steps_ascoded.cfg", "workers": 12, "expect_violation": "is violated"},
    ],
    "drivers": [{"module": "harness.drv_steps", "trace": "Trace_Steps", "args": ["--prop", "C15"]}],
    "shards": {"quick": 4, "thorough": 14},
    "rule": "one trace per (TLC-enumerated step composition, population size, input form) applied with the real "
            "combinators and probe-wrapped real leaves, per GP run (sizes of all generations) and one for all "
            "initialisers / injected initial populations; quick covers a rotating third of the depth-one space",
    "assumptions": [
        "step compositions come from TLC (Gen_Steps): the complete depth-one space over weights {0,1,2} (quick) / "
        "{0,1,2,5} (thorough) plus sampled nestings up to depth three",
        "a probe materialises its input to learn its length and hands the real step an object of the same form",
        "events of probes whose generator was not run to exhaustion are not judged",
    ],
}
CHECKS["C16"] = {
    "title": "elitism keeps the best",
    "run": std_run,
    "models": [
        {"module": "MC_Select", "cfg": "MC_Select.cfg", "cfg_thorough": "MC_Select_thorough.cfg", "workers": 12, "timeout": 1500},
        {"module": "MC_Select", "cfg": "MC_Select_worstfirst.cfg", "workers": 12, "expect_violation": "is violated"},
    ],
    "drivers": [{"module": "harness.drv_steps", "trace": "Trace_Steps", "args": ["--prop", "C16"]}],
    "shards": {"quick": 1, "thorough": 8},
    "rule": "one trace per population (ties, a duplicated member, both directions) with the real ElitismStep applied "
            "for every k in 1..|pop| on list / iterator / Population inputs; plus GP runs recording the fitness of "
            "every generation together with the elite slots the composition reserved",
    "assumptions": [
        "run-level monotonicity is judged only when the elitism step reserved >= 1 slot AND was shown the whole "
        "previous generation (observed through its probe); an ExclusiveParallelStep shows it a slice only",
    ],
}
CHECKS["C17"] = {
    "title": "selection operators are sound (tournament and lexicase)",
    "run": std_run,
    "models": [
        {"module": "MC_Select", "cfg": "MC_Select.cfg", "cfg_thorough": "MC_Select_thorough.cfg", "workers": 12, "timeout": 1500},
    ],
    "drivers": [{"module": "harness.drv_steps", "trace": "Trace_Steps", "args": ["--prop", "C17"]}],
    "shards": {"quick": 4, "thorough": 14},
    "exhaustive": True,
    "rule": "one trace per OUTCOME of the random draws: the real TournamentSelection / LexicaseSelection are driven "
            "through every outcome of their choice / shuffle calls by a scripted source for small populations "
            "(tournament: sizes 1-3(5), with/without replacement, all target sizes; lexicase: 2-3 cases, mixed "
            "directions, plain and epsilon)",
    "assumptions": [
        "participants of a tournament are the individuals returned by the random source's choice between two winners",
        "epsilon-lexicase bands are computed exactly in TLC (median absolute deviation in units of 1/4)",
    ],
}

_SYN_MODELS = [
    {"module": "MC_Syn", "cfg": "MC_Syn.cfg", "cfg_thorough": "MC_Syn_all.cfg", "workers": 12, "timeout": 1500},
]
_SYN_ASSUME = [
    "the typing / refinement / depth oracle is the DECLARED class hierarchy read with typing.get_type_hints, "
    "independently of extract_grammar",
    "unrefined int / float / str values are abstracted to their exact Python type; floats are rank-encoded per batch",
    "grammars: 10 regression grammars + 1 raw-source grammar with custom metahandlers + members of the generated family",
]
def _syn(prop, title, rule, extra_models=(), extra_assume=()):
    return {
        "title": title, "run": std_run,
        "models": _SYN_MODELS + list(extra_models),
        "drivers": [{"module": "harness.drv_syn", "trace": "Trace_Syn", "args": ["--prop", prop]}],
        "shards": {"quick": 3, "thorough": 14},
        "rule": rule,
        "assumptions": _SYN_ASSUME + list(extra_assume),
    }
CHECKS["C01"] = _syn("C01", "every produced program is well-typed",
    "one trace per grammar: programs created / mapped / mutated / crossed over with all five representations and "
    "four deciders (events produced / failed); distinct = distinct traces by content")
# the decider without a depth limit: every derivation ends (bounded depth), the rule before the repair does not
CHECKS["C01"]["models"] = CHECKS["C01"]["models"] + [
    {"module": "MC_SynPT", "cfg": "MC_SynPT.cfg", "workers": 8, "timeout": 900},
    {"module": "MC_SynPT", "cfg": "MC_SynPT_anyfallback.cfg", "workers": 8, "timeout": 900, "expect_violation": "PtDepthBounded is violated"},
]
CHECKS["C02"] = _syn("C02", "refinements hold on every produced value",
    "as C01, plus validate() called on values produced by generate() of every refinement (events validate)")
CHECKS["C03"] = _syn("C03", "depth limits respected, every feasible limit usable",
    "one trace per grammar: for every limit d from reported-minimum - 1 to + 2 (+3) and the grow / full / PI-grow "
    "deciders (directly and through GE / SGE mapping) and dSGE: decider construction, creation, mutation and "
    "crossover chains; raw draws are counted so that a rejection can be shown to be up-front",
    extra_assume=["the feasibility threshold is the minimum depth the implementation reports (its exactness is C05)"])
# decision-level conformance: every production / union choice asked of the real decider, replayed on the program
CHECKS["C03"]["drivers"].append({"module": "harness.drv_derive", "trace": "Trace_Derive", "advisory": True})
CHECKS["C10"] = _syn("C10", "the grammar is read-only during synthesis and search",
    "one trace per grammar: workloads at depths below / at / above the minimum (including failing and backtracking "
    "ones: dependent refinements over an empty context, exhausted stack genomes) followed by a full re-projection "
    "of the Grammar object that TLC compares with the projection taken before")
CHECKS["C10"]["drivers"].append({"module": "harness.drv_c04", "trace": "Trace_C04", "args": ["--prop", "C10"]})
CHECKS["C11"] = _syn("C11", "per-node size and depth metadata matches the structure",
    "as C01 with the five gengy_* labels of every node and list projected; the type index is projected as class -> "
    "set of paths found by identity inside the program")
CHECKS["C04"] = {
    "title": "depth-bounded creation reaches exactly the bounded language",
    "run": std_run,
    "models": [
        {"module": "MC_Syn", "cfg": "MC_Syn_all.cfg", "workers": 12, "timeout": 1500},
        {"module": "MC_Syn", "cfg": "MC_Syn_ascoded.cfg", "workers": 12, "expect_violation": "GrowExact is violated"},
    ],
    "drivers": [{"module": "harness.drv_c04", "trace": "Trace_C04", "args": ["--prop", "C04"]}],
    "shards": {"quick": 4, "thorough": 14},
    "exhaustive": True,
    "rule": "one trace per finite-choice grammar; each event is the COMPLETE set of programs the real code creates "
            "for one decider and depth (all decision sequences enumerated by a scripted source), compared by TLC "
            "with Lang / FullLang computed from the declared grammar; depth grows until the decision tree exceeds the cap",
    "assumptions": [
        "finite-choice grammars only (refined base values, bool, sized lists, unions, symbols); cap on decision-tree "
        "leaves 2000 (quick) / 40000 (thorough)",
        "'full creation' is the public FullInitializer; the full clause is judged only where every node-typed field is "
        "a recursive abstract type and no list may be empty",
        "default depth-counting mode only",
    ],
}

CHECKS["C06"] = {
    "title": "crossover recombines parental material; point mutation is local",
    "run": std_run,
    "models": [
        {"module": "MC_C06", "cfg": "MC_C06.cfg", "workers": 8, "timeout": 900},
        {"module": "MC_C06", "cfg": "MC_C06_fresh.cfg", "workers": 4, "expect_violation": "RecogniserComplete is violated"},
    ],
    "drivers": [{"module": "harness.drv_c06", "trace": "Trace_C06"}],
    "shards": {"quick": 2, "thorough": 12},
    "rule": "one trace per grammar: crossover (all five representations) and mutation (linear / structured) calls on "
            "parents reached by create / mutate / crossover chains, gene lengths 1..300; each event carries both "
            "parents and both children (trees as terms, genes rank-encoded)",
    "assumptions": [
        "tree offspring is compared structurally: a donor subtree that was copied rather than shared is accepted",
        "genes are rank-encoded per event (only equality matters)",
        "MC_C06 validates the linear-time recogniser used on traces against the declarative definition TreeXO for "
        "all parent pairs of four small grammars",
    ],
}

CHECKS["C07"] = {
    "title": "genotype -> phenotype mapping is a pure function of the genotype",
    "run": std_run,
    "generators": [{"module": "Gen_Map", "cfg": "Gen_Map.cfg", "cfg_thorough": "Gen_Map_thorough.cfg",
                    "env": "GEN_OUT", "out": "gen_map.json", "arg": "--gen"}],
    "models": [
        {"module": "MC_C07", "cfg": "MC_C07_FALSE_pure.cfg", "workers": 4},
        {"module": "MC_C07", "cfg": "MC_C07_TRUE_pure.cfg", "workers": 4},
        {"module": "MC_C07", "cfg": "MC_C07_FALSE_impure.cfg", "workers": 4, "expect_violation": "MapStable is violated"},
    ],
    "drivers": [{"module": "harness.drv_c07", "trace": "Trace_C07"}],
    "shards": {"quick": 1, "thorough": 8},
    "rule": "one trace per (grammar, representation x decider, TLC-generated interleaving of create / map / draw / "
            "mutate / crossover); every mapping call is an event with the projected program, the number of raw draws "
            "on the shared source before and after, and the genotype before and after",
    "assumptions": [
        "the shared source is wrapped by a counting RandomSource (raw draws = randint / random_float / normalvariate calls)",
        "interleavings are generated by TLC (all of length <= 2 plus a random sample of longer ones)",
    ],
}

CHECKS["C19"] = {
    "title": "production weights are normalised per non-terminal, stable and respected",
    "run": std_run,
    "models": [
        {"module": "MC_C19", "cfg": "MC_C19.cfg", "workers": 4},
        {"module": "MC_C19", "cfg": "MC_C19_noreset.cfg", "workers": 4, "expect_violation": "SumToOne is violated"},
        {"module": "MC_C18", "cfg": "MC_C18.cfg", "workers": 8},
        # where the weights live: histories of extractions over subsets of shared classes and re-declarations
        {"module": "GEWeightStore", "cfg": "MC_WeightStore.cfg", "workers": 4, "timeout": 900},
        {"module": "GEWeightStore", "cfg": "MC_WeightStore_ascoded.cfg", "workers": 4, "timeout": 900,
         "expect_violation": "RatioKept is violated"},
    ],
    "drivers": [{"module": "harness.drv_c19", "trace": "Trace_C19"}],
    "shards": {"quick": 1, "thorough": 8},
    "rule": "one trace per weighted hierarchy (fresh classes; any subset of productions weighted incl. zero weights and "
            "nested abstract types; considered list = all classes or concrete classes only): three consecutive "
            "extractions, then every weight-aware chooser driven through all (boundary) raw draws for every "
            "non-terminal; plus the history 'a smaller grammar over the same classes was extracted first'",
    "assumptions": [
        "weights are projected as integers scaled by 10^4; sums / ratios / idempotence are judged with a tolerance of "
        "2e-4 per production",
        "hierarchies whose weights are all zero under one non-terminal are excluded (normalisation undefined)",
    ],
}

CHECKS["C09"] = {
    "title": "operators and steps never modify their inputs",
    "run": std_run,
    "models": [
        {"module": "MC_C09", "cfg": "MC_C09_allocate.cfg", "workers": 8},
        {"module": "MC_C09", "cfg": "MC_C09_writeinplace.cfg", "workers": 4, "expect_violation": "HeapAppendOnly is violated"},
    ],
    "drivers": [{"module": "harness.drv_c09", "trace": "Trace_C09"}],
    "shards": {"quick": 4, "thorough": 14},
    "rule": "one trace per (grammar, representation, operator chain or step composition): structural snapshots "
            "(program with all gengy_* labels and synthesis contexts, genes, cached fitness entries, phenotype cache) of "
            "the inputs and outputs of every call, and of EVERY object ever seen every 10 operations and at the end",
    "assumptions": [
        "object identity = Python identity, numbered by first appearance with strong references held",
        "Individual.metadata['generation'] (written by Population, not by an operator) is not part of the snapshot",
        "offspring are mapped / evaluated after each operation, as a search does, so that writes caused by mapping "
        "an offspring that shares structure with its parent are observed",
    ],
}

CHECKS["C08"] = {
    "title": "same seed, same search, within and across processes",
    "run": std_run,
    "models": [
        {"module": "MC_C08", "cfg": "MC_C08_canonical.cfg", "workers": 4},
        {"module": "MC_C08", "cfg": "MC_C08_setorder.cfg", "workers": 4, "expect_violation": "Agree is violated"},
    ],
    "drivers": [{"module": "harness.drv_c08", "trace": "Trace_C08"}],
    "shards": {"quick": 1, "thorough": 4},
    "rule": "one trace per search configuration (algorithm x representation x grammar x initialiser, random decider and "
            "direction): the sequence of programs handed to the fitness function and the returned best, for two runs in "
            "one process and for fresh interpreters with different PYTHONHASHSEED, allocation padding before the grammar "
            "classes are defined and import order, merged; digests are computed from the projected structure",
    "assumptions": [
        "the adversary (hash seed, addresses) is sampled: 3 (quick) / 5 (thorough) process environments per configuration",
        "wall-clock budgets are excluded, as the property says",
    ],
}

# functional conformance: the GE phenotype EQUALS GEMapFn!MapForm evaluated by TLC on the same genes
CHECKS["C07"]["drivers"].append({"module": "harness.drv_gemap", "trace": "Trace_GEMap", "advisory": True})

# advisory: lineage of the individuals evaluated by RandomSearch / OnePlusOne / HC (what the algorithms are documented to do)
CHECKS["C12"]["drivers"].append({"module": "harness.drv_lineage", "trace": "Trace_Lineage", "advisory": True})
# model of the local-search loops at the grain of one individual (GELocalSearch): C14's window / first-check / termination
# clauses and C12's monotone best hold for the documented loops AND for the loops as coded; the documented lineage
# (every newcomer is a mutant of the current best) holds for the design only - the as-coded variants must violate it
# (advisory observation, see Trace_Lineage)
CHECKS["C14"]["models"] = CHECKS["C14"]["models"] + [
    {"module": "MC_LocalSearch", "cfg": "MC_LocalSearch_OPO_design.cfg", "workers": 2},
    {"module": "MC_LocalSearch", "cfg": "MC_LocalSearch_HC_design.cfg", "workers": 2},
    {"module": "MC_LocalSearch", "cfg": "MC_LocalSearch_OPO_ascoded_c14.cfg", "workers": 2},
    {"module": "MC_LocalSearch", "cfg": "MC_LocalSearch_HC_ascoded_c14.cfg", "workers": 2},
    {"module": "MC_LocalSearch", "cfg": "MC_LocalSearch_OPO_ascoded.cfg", "workers": 2,
     "expect_violation": "Invariant OffspringAreMutants is violated"},
    {"module": "MC_LocalSearch", "cfg": "MC_LocalSearch_HC_ascoded.cfg", "workers": 2,
     "expect_violation": "Invariant ParentIsBest is violated"},
]
# advisory: wrap_depth_minimization keeps the order of the problem it wraps and breaks ties towards shallower programs
CHECKS["C13"]["drivers"].append({"module": "harness.drv_wrap", "trace": "Trace_Wrap", "advisory": True})
# model of the pool tournaments draw from: the documented design keeps it intact, the code as it stands does not (advisory
# observation, see Trace_Tournament); C17's membership clause holds in both
CHECKS["C17"]["models"] = CHECKS["C17"]["models"] + [
    {"module": "MC_TournamentPool", "cfg": "MC_TournamentPool_design_TRUE.cfg", "workers": 2},
    {"module": "MC_TournamentPool", "cfg": "MC_TournamentPool_design_FALSE.cfg", "workers": 2},
    {"module": "MC_TournamentPool", "cfg": "MC_TournamentPool_ascoded_TRUE.cfg", "workers": 2, "expect_violation": "PoolIntact is violated"},
    {"module": "MC_TournamentPool", "cfg": "MC_TournamentPool_ascoded_FALSE.cfg", "workers": 2, "expect_violation": "PoolIntact is violated"},
]
# advisory: the pool each tournament draws its participants from (documented: the population)
CHECKS["C17"]["drivers"].append({"module": "harness.drv_tournament", "trace": "Trace_Tournament", "advisory": True})
