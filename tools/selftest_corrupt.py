#!/usr/bin/env python3
"""Binding demonstration: for every trace specification, record traces from the real code (quick drivers), corrupt ONE
recorded field and show that TLC rejects the batch (and accepts the uncorrupted one modulo known findings).
usage: selftest_corrupt.py [ids...]   exit 0 iff every corruption was rejected"""
import copy, json, os, shutil, sys
sys.path.insert(0, os.path.dirname(os.path.dirname(os.path.abspath(__file__))))
from vlib import runner as R
from vlib.checks import CHECKS, run_generators

def first(traces, pred):
    for t in traces:
        for i, e in enumerate(t["events"]):
            if pred(e):
                return t, i, e
    return None, None, None

def c18(b):
    t, i, e = first(b["traces"], lambda e: e.get("name") == "randint" and not e.get("exc")); e["r"] = e["hi"] + 1
def c05(b):
    t, i, e = first(b["traces"], lambda e: e.get("e") == "analysis" and not e.get("exc") and not e["impl"]["expd"])
    k = [x for x in e["impl"]["dist"] if x in t["cfg"]["g"]["classes"]][0]; e["impl"]["dist"][k] += 1
def c12(b):
    t, i, e = first(b["traces"], lambda e: e.get("e") == "reg"); e["isbest"] = not e["isbest"]
def c13(b):
    t, i, e = first(b["traces"], lambda e: e.get("e") == "reg"); e["comps"][0] += 1; e["agg"] += 1
def c14(b):
    t, i, e = first(b["traces"], lambda e: e.get("e") == "check" and e["done"]); e["done"] = False
def c15(b):
    t, i, e = first(b["traces"], lambda e: e.get("e") == "apply" and e["complete"]); e["out_len"] += 1
def c16(b):
    t, i, e = first(b["traces"], lambda e: e.get("e") == "elite" and len(e["out"]) >= 1 and len(e["pop"]) > len(e["out"])); e["out"] = e["out"][:-1]
def c17(b):
    t, i, e = first(b["traces"], lambda e: e.get("e") == "win"); e["ind"] = {"id": 99, "f": e["ind"]["f"]}
def c01(b):
    def find_val(t):
        if t["k"] == "val" and t["ty"] == "int": return t
        for k in t["kids"]:
            r = find_val(k)
            if r: return r
    for t in b["traces"]:
        for e in t["events"]:
            if e.get("e") == "produced":
                v = find_val(e["prog"])
                if v: v["ty"] = "float"; return
def c02(b):
    def find_val(t):
        if t["k"] == "val" and t["ty"] == "int": return t
        for k in t["kids"]:
            r = find_val(k)
            if r: return r
    t = [x for x in b["traces"] if x["id"] == "arith"][0]
    for e in t["events"]:
        if e.get("e") == "produced" and e["rep"] == "tree":
            v = find_val(e["prog"]); v["iv"] = 7; return
def c03(b):
    t, i, e = first(b["traces"], lambda e: e.get("e") == "produced" and e["d"] >= 2); e["d"] = 0; e["mind"] = 0
def c10(b):
    t, i, e = first(b["traces"], lambda e: e.get("e") == "grammar" and e["impl"]["altkeys"]); k = e["impl"]["altkeys"][0]; e["impl"]["alts"][k] = e["impl"]["alts"][k][::-1] + ["X"]
def c11(b):
    def find_node(t):
        if t["k"] == "node" and t["m"].get("has"): return t
        for k in t["kids"]:
            r = find_node(k)
            if r: return r
    for t in b["traces"]:
        for e in t["events"]:
            if e.get("e") == "produced":
                v = find_node(e["prog"])
                if v: v["m"]["nodes"] += 1; return
def c04(b):
    t, i, e = first(b["traces"], lambda e: e.get("e") == "impl_set" and e["decider"] == "grow" and len(e["programs"]) > 1); e["programs"] = e["programs"][1:]
def c06(b):
    t, i, e = first(b["traces"], lambda e: e.get("e") == "mut" and e["kind"] == "linear" and len(e["m"]) >= 2); e["m"][0] = 99991; e["m"][1] = 99992
def c07(b):
    t, i, e = first(b["traces"], lambda e: e.get("e") == "map" and not e["exc"] and e["rep"] == "ge"); e["draws_after"] += 1
def c08(b):
    t, i, e = first(b["traces"][::-1], lambda e: e.get("e") == "eval" and e["run"] != "hs1/r0"); e["digest"] = 9999
def c09(b):
    t = b["traces"][0]; last = t["events"][-1]; o = [x for x in last["objs"] if x["genes"] or x["t"]["kids"]][0]
    if o["genes"]: o["genes"][0]["g"] = o["genes"][0]["g"][:-1] + [123456] if o["genes"][0]["g"] else [1]
    else: o["t"]["kids"] = o["t"]["kids"][:-1]
def c19(b):
    t, i, e = first(b["traces"], lambda e: e.get("e") == "weights" and not e["exc"] and any(c["hasw"] for c in t_cfg(b, e)["g"]["classes"].values()))
    cfg = t_cfg(b, e); a = [x for x in e["impl"]["altkeys"] if x in cfg["g"]["classes"]][0]; p = e["impl"]["alts"][a][0]; e["impl"]["weights"][p] += 700
def t_cfg(b, e):
    for t in b["traces"]:
        if any(x is e for x in t["events"]): return t["cfg"]
def c20(b):
    t, i, e = first(b["traces"], lambda e: e.get("e") == "registered" and len(e["disk"]) >= 2); e["disk"][-1][-1] = "tampered"
def gemap(b):
    # shift every gene of every mapping of one grammar by one: some draw among them changes its outcome
    t = [x for x in b["traces"] if x["id"] == "arith"][0]
    for e in t["events"]:
        e["genes"] = [x + 1 for x in e["genes"]]
def derive(b):
    t, i, e = first(b["traces"], lambda e: e.get("e") == "derivation" and e["decisions"]); e["decisions"][-1]["c"] += 1

CORRUPT = {"C18": [("harness.drv_c18", c18)], "C05": [("harness.drv_c05", c05)], "C12": [("harness.drv_search", c12)],
           "C13": [("harness.drv_search", c13)], "C14": [("harness.drv_search", c14)], "C15": [("harness.drv_steps", c15)],
           "C16": [("harness.drv_steps", c16)], "C17": [("harness.drv_steps", c17)], "C01": [("harness.drv_syn", c01)],
           "C02": [("harness.drv_syn", c02)], "C03": [("harness.drv_syn", c03), ("harness.drv_derive", derive)],
           "C10": [("harness.drv_syn", c10)], "C11": [("harness.drv_syn", c11)], "C04": [("harness.drv_c04", c04)],
           "C06": [("harness.drv_c06", c06)], "C07": [("harness.drv_c07", c07), ("harness.drv_gemap", gemap)], "C08": [("harness.drv_c08", c08)],
           "C09": [("harness.drv_c09", c09)], "C19": [("harness.drv_c19", c19)], "C20": [("harness.drv_c20", c20)]}

def main():
    ids = sys.argv[1:] or sorted(CORRUPT)
    bad = 0
    known = R.load_known()
    for pid in ids:
        c = CHECKS[pid]
        work = os.path.join(R.OUT, "selftest", pid)
        shutil.rmtree(work, ignore_errors=True); os.makedirs(work)
        os.environ["VERIF_TMP"] = work
        gen = run_generators(c, "quick", work)
        for drv, fn in CORRUPT[pid]:
            d = [x for x in c["drivers"] if x["module"] == drv][0]
            s = R.run_driver(drv, os.path.join(work, "drv"), "quick", 0, shards=1, extra=list(d.get("args", [])) + gen)
            with open(s["batches"][0]) as f:
                b = json.load(f)
            def unknown(mg):
                return sum(1 for rej in mg["rejected"] for x in rej["bad"] if R.match_known(known, pid, x["c"], x["a"]) is None)
            base = unknown(R.validate_batches(d["trace"], s["batches"][:1], os.path.join(work, "v0")))
            fn(b)
            p = os.path.join(work, "corrupt.json")
            with open(p, "w") as f:
                json.dump(b, f)
            after = unknown(R.validate_batches(d["trace"], [p], os.path.join(work, "v1")))
            ok = base == 0 and after >= 1
            print(f"{pid} {d['trace']}: recorded traces unknown-rejections={base}; after corrupting one field: {after}  -> {'REJECTED (bound)' if ok else 'PROBLEM'}", flush=True)
            bad += 0 if ok else 1
        shutil.rmtree(work, ignore_errors=True)
    sys.exit(1 if bad else 0)

if __name__ == "__main__":
    main()
