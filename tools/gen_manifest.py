#!/usr/bin/env python3
"""regenerate MANIFEST.json from vlib/checks.py (claimed checks) + not_applicable for the rest"""
import json, os, sys
sys.path.insert(0, os.path.dirname(os.path.dirname(os.path.abspath(__file__))))
from vlib.checks import CHECKS
from vlib.manifest_text import TEXT, NOT_APPLICABLE

ids = [json.loads(l)["id"] for l in open("/verif/properties.jsonl")]
checks = []
for i in ids:
    if i not in CHECKS or i in NOT_APPLICABLE:
        continue
    t = TEXT[i]
    checks.append({
        "property_id": i,
        "quick_cmd": f"/venv/bin/python -B bin/verif.py check {i} --tier quick",
        "thorough_cmd": f"/venv/bin/python -B bin/verif.py check {i} --tier thorough",
        "evidence_file": f"/verif/evidence/{i}.json",
        "replay_cmd_template": "/venv/bin/python -B bin/verif.py replay {path}",
        "engine": "tla-trace",
        "level_claimed": {"category": "model_checking", "text": t["level"], "design_ref": t["ref"]},
        "level_note": t["note"],
        "technique": t["technique"],
    })
m = {
    "version": 1,
    "setup_cmd": "/venv/bin/python -B bin/verif.py setup",
    "hooks": {"guard": "GENETICENGINE_VERIF",
              "enable": "no source hooks: observation uses the library's public extension points (RandomSource, SynthesisDecider, SearchBudget, SearchRecorder, GeneticStep subclasses); checks import the package from /repo's working tree via PYTHONPATH",
              "baseline_off_cmd": "cd /repo && /venv/bin/python -m pytest -ra -q -p no:cacheprovider --timeout=900 --continue-on-collection-errors",
              "source_commits": [], "add_only": True},
    "engines": [{"name": "tla-trace", "path": "/verif/bin/verif.py",
                 "serves_properties": [c["property_id"] for c in checks],
                 "kind_free_text": "explicit TLA+ specification (spec/*.tla) model-checked with TLC; conformance by batched trace validation of recorded executions of the real code, replay of TLC-generated cases, and exhaustive scripted-randomness enumeration compared inside TLC"}],
    "checks": checks,
    "notes": "fix: commits in /repo and open findings are listed in /verif/known_findings.json; DESIGN.md explains every check.",
    "not_applicable": [{"property_id": i, "reason": NOT_APPLICABLE.get(i, "check under construction in this session; not yet claimed")}
                       for i in ids if i not in CHECKS or i in NOT_APPLICABLE],
}
json.dump(m, open("/verif/MANIFEST.json", "w"), indent=1)
print("claimed:", [c["property_id"] for c in checks])
