from harness import grammars as GR
from harness.drv_c07 import used_decider
from geneticengine.grammar.grammar import extract_grammar
from geneticengine.random.sources import NativeRandomSource
from geneticengine.representations.tree.initializations import PositionIndependentGrowDecider
from geneticengine.representations.grammatical_evolution.structured_ge import StructuredGrammaticalEvolutionRepresentation
from geneticengine.representations.tree.treebased import TreeBasedRepresentation
spec = [s for s in GR.fixed_specs() if s["id"] == "concstart"][0]
b = GR.build(spec)
g = extract_grammar(b.considered, b.start)
d = int(g.get_min_tree_depth()) + 2
diff = 0; within = 0
for seed in range(300):
    s1, s2 = NativeRandomSource(seed), NativeRandomSource(1000 + seed)
    d1 = used_decider(PositionIndependentGrowDecider(s1, g, d), g, s1)
    d2 = used_decider(PositionIndependentGrowDecider(s2, g, d), g, s2)
    r1 = StructuredGrammaticalEvolutionRepresentation(g, d1, gene_length=16)
    r2 = StructuredGrammaticalEvolutionRepresentation(g, d2, gene_length=16)
    gt = r1.create_genotype(s1)
    try:
        a, c = str(r1.genotype_to_phenotype(gt)), str(r2.genotype_to_phenotype(gt))
    except Exception as e:
        continue
    if a != c:
        diff += 1
        if diff < 3: print("across objects:", d1.expanding, d2.expanding, a, "|", c)
    # within ONE representation: the user goes on using the shared decider through a tree representation
    e0 = d1.expanding
    for k in range(8):
        try:
            t = TreeBasedRepresentation(g, d1); x = t.create_genotype(s1); t.mutate(s1, x)
        except Exception: pass
        if d1.expanding != e0:
            a2 = str(r1.genotype_to_phenotype(gt))
            if a2 != a:
                within += 1
                if within < 3: print("WITHIN one object: expanding", e0, "->", d1.expanding, a, "|", a2)
            break
print("across", diff, "within", within)
