#!/usr/bin/env python3
"""run the quick checks against seeded changes, each applied in its own scratch worktree of /repo HEAD
(VERIF_REPO points the checks at it; /repo itself is not touched).
usage: run_mutants.py [-j N] name=C01,C02 name2=C05 ...   (name = directory under /verif/seeded)"""
import concurrent.futures as cf, json, os, subprocess, sys, time
def sh(cmd, **kw):
    return subprocess.run(cmd, shell=True, stdout=subprocess.PIPE, stderr=subprocess.STDOUT, text=True, **kw)
def one(arg):
    name, checks = arg.split("=")
    checks = checks.split(",")
    wt = f"/tmp/wt/mut-{name}"
    sh(f"git -C /repo worktree remove --force {wt}")
    r = sh(f"git -C /repo worktree add --detach {wt} HEAD -q")
    patch = f"/verif/seeded/{name}/patch.diff"
    res = {"name": name, "applied": "clean", "checks": {}}
    try:
        a = sh(f"git -C {wt} apply {patch}")
        if a.returncode != 0:
            a3 = sh(f"git -C {wt} apply --3way {patch}")
            res["applied"] = "3way" if a3.returncode == 0 and "conflict" not in a3.stdout.lower() else "FAILED: " + a.stdout[-300:]
        if not res["applied"].startswith("FAILED"):
            for c in checks:
                env = dict(os.environ, VERIF_REPO=wt, VERIF_EVID=f"/verif/out/mutants/evid-{name}", VERIF_RUNTAG=f"-{name}")
                t0 = time.time()
                p = subprocess.run(f"timeout 2400 /venv/bin/python -B bin/verif.py check {c} --tier quick", shell=True, cwd="/verif",
                                   env=env, stdout=subprocess.PIPE, stderr=subprocess.STDOUT, text=True)
                lines = [l[:260] for l in p.stdout.splitlines() if l.startswith(("VIOLATION", "  clause=", "MACHINERY"))]
                res["checks"][c] = {"rc": p.returncode, "wall": round(time.time() - t0), "lines": lines[:10]}
    finally:
        sh(f"git -C /repo worktree remove --force {wt}")
        sh(f"rm -rf /verif/out/mutants/evid-{name}")
    os.makedirs("/verif/out/mutants", exist_ok=True)
    json.dump(res, open(f"/verif/out/mutants/{name}.json", "w"), indent=1)
    print(name, res["applied"], {c: v["rc"] for c, v in res["checks"].items()}, flush=True)
    for c, v in res["checks"].items():
        for l in v["lines"][:4]:
            print("    ", l, flush=True)
    return res
if __name__ == "__main__":
    args = sys.argv[1:]
    j = 2
    if args and args[0] == "-j":
        j = int(args[1]); args = args[2:]
    with cf.ThreadPoolExecutor(max_workers=j) as ex:
        list(ex.map(one, args))
