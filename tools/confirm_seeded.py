#!/usr/bin/env python3
"""confirm every seeded change in a scratch worktree of /repo HEAD: the demonstration passes without the change,
fails with it, and the existing tests (core, representations, gp without the benchmarks) still pass with it.
Writes seeded/<name>/confirm.json.   usage: confirm_seeded.py [-j N] [names...]"""
import concurrent.futures as cf, json, os, subprocess, sys, time
S = "/verif/seeded"
def sh(cmd, **kw):
    return subprocess.run(cmd, shell=True, stdout=subprocess.PIPE, stderr=subprocess.STDOUT, text=True, **kw)
def one(name):
    d = os.path.join(S, name)
    wt = f"/tmp/wt/conf-{name}"
    sh(f"git -C /repo worktree remove --force {wt}")
    sh(f"git -C /repo worktree add --detach {wt} HEAD -q")
    res = {"name": name, "head": sh("git -C /repo rev-parse --short HEAD").stdout.strip()}
    env = dict(os.environ, PYTHONPATH=wt, PYTHONDONTWRITEBYTECODE="1", PYTHONHASHSEED="0")
    try:
        p0 = subprocess.run(["timeout", "600", "/venv/bin/python", "-B", os.path.join(d, "demo.py")], cwd=wt, env=env,
                            stdout=subprocess.PIPE, stderr=subprocess.STDOUT, text=True)
        res["demo_without_change"] = {"rc": p0.returncode, "tail": p0.stdout[-300:]}
        a = sh(f"git -C {wt} apply {d}/patch.diff")
        res["patch_applies"] = a.returncode == 0
        if a.returncode == 0:
            p1 = subprocess.run(["timeout", "600", "/venv/bin/python", "-B", os.path.join(d, "demo.py")], cwd=wt, env=env,
                                stdout=subprocess.PIPE, stderr=subprocess.STDOUT, text=True)
            res["demo_with_change"] = {"rc": p1.returncode, "tail": p1.stdout[-300:]}
            t = subprocess.run("timeout 1500 /venv/bin/python -m pytest -q -p no:cacheprovider -n 3 --timeout=900 tests/core tests/representations tests/gp "
                               "--deselect tests/gp/performance_test.py --deselect tests/gp/parameterless_test.py::TestParameterless::test_adaptive",
                               shell=True, cwd=wt, env=env, stdout=subprocess.PIPE, stderr=subprocess.STDOUT, text=True)
            res["tests_with_change"] = {"rc": t.returncode, "tail": t.stdout.strip().splitlines()[-1][:200] if t.stdout.strip() else ""}
    finally:
        sh(f"git -C /repo worktree remove --force {wt}")
    json.dump(res, open(os.path.join(d, "confirm.json"), "w"), indent=1)
    print(name, "pristine", res.get("demo_without_change", {}).get("rc"), "mutated", res.get("demo_with_change", {}).get("rc"),
          "tests", res.get("tests_with_change", {}).get("rc"), res.get("tests_with_change", {}).get("tail", ""), flush=True)
if __name__ == "__main__":
    args = sys.argv[1:]
    j = 3
    if args and args[0] == "-j":
        j = int(args[1]); args = args[2:]
    names = args or sorted(n for n in os.listdir(S) if os.path.isdir(os.path.join(S, n)))
    with cf.ThreadPoolExecutor(max_workers=j) as ex:
        list(ex.map(one, names))
