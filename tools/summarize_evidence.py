#!/usr/bin/env python3
"""print one line per property from evidence/*.json (model states, traces validated, events, wall) - used to refresh the
table of DESIGN.md section 10.1"""
import glob, json, os
for f in sorted(glob.glob(os.path.join(os.path.dirname(os.path.dirname(os.path.abspath(__file__))), "evidence", "C*.json"))):
    e = json.load(open(f))
    c = e["coverage"]
    models = "; ".join(f"{m['module']}/{m['cfg'].replace('.cfg','')}: {m.get('distinct_states', '-')}" + (" (must fail)" if m.get("expect_violation") else "")
                       for m in c.get("model_runs", []))
    print(f"| {e['property_id']} | {e['tier']} | {models} | {c.get('traces_validated_against_impl')} traces, "
          f"{c.get('trace_events_validated')} events | {e['wall_s']} s | known findings seen: {len(c.get('known_findings_seen', []))} |")
