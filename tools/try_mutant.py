#!/usr/bin/env python3
"""apply a seeded change to /repo, run the given quick checks, undo the change straight afterwards.
usage: try_mutant.py seeded/<dir> C12 [C13 ...]   (prints one line per check)"""
import os, subprocess, sys, json
d = sys.argv[1]
checks = sys.argv[2:]
patch = os.path.abspath(os.path.join(d, "patch.diff"))
def sh(cmd, **kw):
    return subprocess.run(cmd, shell=True, stdout=subprocess.PIPE, stderr=subprocess.STDOUT, text=True, **kw)
st = sh("git -C /repo status --porcelain --untracked-files=no")
if st.stdout.strip():
    print("REFUSING: /repo has uncommitted changes:\n" + st.stdout); sys.exit(2)
r = sh(f"git -C /repo apply --check {patch}")
mode = ""
if r.returncode != 0:
    r3 = sh(f"git -C /repo apply --3way {patch}")
    if r3.returncode != 0:
        print("PATCH-DOES-NOT-APPLY", d, r.stdout[-500:]); sh("git -C /repo reset -q --hard HEAD"); sys.exit(3)
    mode = "(3way)"
    sh("git -C /repo reset -q")
else:
    sh(f"git -C /repo apply {patch}")
res = {}
try:
    for c in checks:
        p = sh(f"/venv/bin/python -B bin/verif.py check {c} --tier quick", cwd="/verif")
        viol = [l for l in p.stdout.splitlines() if l.startswith("VIOLATION") or l.startswith("  clause=") or l.startswith("MACHINERY")]
        res[c] = p.returncode
        print(f"{d} {mode} {c}: rc={p.returncode}")
        for l in viol[:8]:
            print("   ", l[:300])
finally:
    sh("git -C /repo checkout -- .")
    st = sh("git -C /repo status --porcelain --untracked-files=no")
    assert not st.stdout.strip(), st.stdout
