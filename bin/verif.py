#!/usr/bin/env python3
"""Entry point of the GeneticEngine verification machinery.

  verif.py check <id> [--tier quick|thorough]     run the check of one property
  verif.py replay <path>                          re-run the recorded case of a violation
  verif.py setup                                  parse every specification module with SANY
  verif.py list                                   list checks

Honours VERIF_SEED, VERIF_TIER, VERIF_REPO (default /repo).
"""
import argparse
import json
import os
import shutil
import subprocess
import sys
import time

sys.path.insert(0, os.path.dirname(os.path.dirname(os.path.abspath(__file__))))
from vlib import runner as R  # noqa: E402
from vlib.checks import CHECKS  # noqa: E402


def do_check(pid, tier, seed):
    if pid not in CHECKS:
        R.log(f"no check for {pid}")
        return 2
    c = CHECKS[pid]
    t0 = time.time()
    work = os.path.join(R.OUT, "run", f"{pid}-{tier}" + os.environ.get("VERIF_RUNTAG", ""))
    shutil.rmtree(work, ignore_errors=True)
    os.makedirs(work, exist_ok=True)
    try:
        res = c["run"](pid, tier, seed, work, c)
    except R.Machinery as e:
        R.log(f"MACHINERY-ERROR property={pid}: {e}")
        return 2
    wall = time.time() - t0
    R.write_evidence(pid, tier, seed, res["coverage"], wall, res["violations"], res["assumptions"])
    R.log(f"{pid} {tier}: model states={res['coverage'].get('states')} traces={res['coverage'].get('traces_validated_against_impl')} "
          f"violations={res['violations']} known={res.get('known', 0)} wall={wall:.1f}s")
    if not os.environ.get("VERIF_KEEP"):
        shutil.rmtree(work, ignore_errors=True)
    return 1 if res["violations"] else 0


def do_replay(path):
    with open(path) as f:
        rp = json.load(f)
    pid = rp["property"]
    c = CHECKS[pid]
    work = os.path.join(R.OUT, "run", f"{pid}-replay")
    shutil.rmtree(work, ignore_errors=True)
    os.makedirs(work, exist_ok=True)
    try:
        return c.get("replay", default_replay)(rp, work, c)
    except R.Machinery as e:
        R.log(f"MACHINERY-ERROR property={pid}: {e}")
        return 2


def default_replay(rp, work, c):
    """regenerate the traces from the real code with the recorded seed/tier, pick the recorded trace id,
    validate it alone; fall back to the recorded events when the id is no longer produced"""
    from vlib.checks import run_generators
    pid = rp["property"]
    drv = rp["driver"]
    dargs = []
    for d in c.get("drivers", []):
        if d["module"] == drv and d["trace"] == rp["trace_module"]:
            dargs = list(d.get("args", []))
    os.environ["VERIF_TMP"] = work
    dargs += run_generators(c, rp["tier"], work)
    s = R.run_driver(drv, os.path.join(work, "drv"), rp["tier"], rp["seed"], shards=1, extra=dargs)
    tr, shared = None, {}
    for b in s["batches"]:
        t, bb = R.find_trace(b, rp["trace_id"])
        if t is not None:
            tr, shared = t, {k: v for k, v in bb.items() if k != "traces"}
            break
    src = "regenerated from the code"
    if tr is None:
        tr, shared, src = rp["trace"], rp.get("shared", {}), "recorded events (trace id not regenerated)"
    one = dict(shared)
    one["traces"] = [tr]
    p = os.path.join(work, "one.json")
    with open(p, "w") as f:
        json.dump(one, f)
    merged = R.validate_batches(rp["trace_module"], [p], work)
    R.log(f"replay of {pid} trace {rp['trace_id']} ({src}): accepted={merged['accepted']} rejected={len(merged['rejected'])}")
    for rej in merged["rejected"]:
        for b in rej["bad"]:
            R.log(f"  event {b['l']}: {b['c']} {b['a']}")
            ev = tr["events"][b["l"] - 1] if b["l"] - 1 < len(tr["events"]) else None
            R.log("   " + json.dumps(ev)[:1500])
    return 1 if merged["rejected"] else 0


def do_setup():
    rc = 0
    for f in sorted(os.listdir(R.SPEC)):
        if f.endswith(".tla"):
            p = subprocess.run(["java", "-cp", R.TLC_CP, "tla2sany.SANY", f], cwd=R.SPEC, stdout=subprocess.PIPE,
                               stderr=subprocess.STDOUT, text=True)
            ok = p.returncode == 0 and "*** Errors" not in p.stdout and "Fatal" not in p.stdout
            print(("ok   " if ok else "FAIL ") + f)
            if not ok:
                print(p.stdout[-2000:])
                rc = 1
    return rc


def main():
    ap = argparse.ArgumentParser()
    sub = ap.add_subparsers(dest="cmd", required=True)
    pc = sub.add_parser("check")
    pc.add_argument("id")
    pc.add_argument("--tier", default=os.environ.get("VERIF_TIER", "quick"))
    pr = sub.add_parser("replay")
    pr.add_argument("path")
    sub.add_parser("setup")
    sub.add_parser("list")
    a = ap.parse_args()
    seed = int(os.environ.get("VERIF_SEED", "0") or 0)
    if a.cmd == "check":
        sys.exit(do_check(a.id, a.tier, seed))
    if a.cmd == "replay":
        sys.exit(do_replay(a.path))
    if a.cmd == "setup":
        sys.exit(do_setup())
    if a.cmd == "list":
        for k in sorted(CHECKS):
            print(k, CHECKS[k].get("title", ""))


if __name__ == "__main__":
    main()
