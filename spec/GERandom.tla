------------------------------ MODULE GERandom ------------------------------
(***************************************************************************)
(* Random primitives of geneticengine/random/sources.py and of the         *)
(* genotype-backed sources, as functions of RAW draws.                     *)
(*                                                                         *)
(* The raw draw  randint(lo,hi)  of the underlying generator (Mersenne     *)
(* Twister, or a scripted source) is an oracle: the model quantifies over  *)
(* every value in lo..hi.  Everything the library derives from raw draws   *)
(* (choice, choice_weighted, shuffle, pop_random, random_bool, the gene    *)
(* reduction `gene % (hi-lo+1) + lo`, BaseDecider.random_int and the dSGE  *)
(* decider's random_int) is modelled step by step, one action per raw      *)
(* draw, shaped after the code.                                            *)
(*                                                                         *)
(* Variant = "design"  : the behaviour the contracts of property C18 need. *)
(* Variant = "ascoded" : the pinned tree (ed6bf22) transcribed literally,  *)
(*                       kept so that TLC can exhibit the known defects.   *)
(***************************************************************************)
EXTENDS GEBase

CONSTANTS Variant,      \* "design" | "ascoded"
          Calls,        \* finite set of call records explored by the model
          Genes,        \* gene values explored for gene-backed sources
          WideThresh    \* width above which the decider uses its wide branch (code: 1000)

VARIABLES pc,     \* "idle" | "run" | "done"
          call,   \* the call in flight
          work,   \* working list (shuffle / pop)
          i,      \* loop index
          res,    \* result (int)  -- for list primitives the result list is `work`
          raws    \* raw draws made so far (history; excluded from the VIEW)

rvars == <<pc, call, work, i, res, raws>>

NoCall == [prim |-> "none", lo |-> 0, hi |-> 0, lst |-> <<>>, ws |-> <<>>]

-----------------------------------------------------------------------------
(* Contracts (the statement of C18).  Shared with Trace_C18.                *)

RandIntContract(lo, hi, r)      == lo <= r /\ r <= hi
ChoiceContract(options, r)      == \E k \in DOMAIN options : options[k] = r
\* weighted choice: the chosen option has positive weight whenever some option has
WeightedContract(options, ws, k) ==
    /\ k \in DOMAIN options
    /\ (\E j \in DOMAIN ws : ws[j] > 0) => ws[k] > 0
ShuffleContract(before, after)  == SameBag(before, after)
PopContract(before, after, r)   ==
    /\ Len(after) = Len(before) - 1
    /\ \E k \in DOMAIN before : before[k] = r /\ SameBag(after, DropAt(before, k))

\* proportionality over the whole raw range: option k is hit for ws[k] raw values (+-1),
\* hits: sequence of hit counts per option when every raw value is tried once.
ProportionalContract(ws, hits) ==
    /\ Len(hits) = Len(ws)
    /\ \A k \in DOMAIN ws : Abs(hits[k] - ws[k]) <= 1
    /\ \A k \in DOMAIN ws : ws[k] = 0 => hits[k] = 0

-----------------------------------------------------------------------------
(* Generators, shaped after the code.                                       *)

\* RandomSource.choice_weighted: acc = accumulated integer weights, total = acc[-1]
RawTopWeighted(total) == IF Variant = "ascoded" THEN total ELSE total - 1
WeightedPick(ws, r) ==
    LET acc == Accumulate(ws)
        k   == FirstIdx(acc, LAMBDA a : r < a)
    IN  IF k = 0 THEN 1 ELSE k          \* code: falls through to choices[0]

\* gene reduction of ge.ListWrapper / stackgggp.ListWrapper / StructuredListWrapper
GeneReduce(g, lo, hi) == (g % (hi - lo + 1)) + lo

\* dSGE decider: v % (max - min) + min   (as coded; undefined for max = min)
DsgeReduce(g, lo, hi) == IF Variant = "ascoded" THEN (g % (hi - lo)) + lo
                         ELSE (g % (hi - lo + 1)) + lo

\* round(log10(w)) for w >= 1, exact (10^(k+1/2) is irrational)
RoundLog10(w) == SMax({k \in 0..4 : k = 0 \/ Pow(10, 2 * k - 1) <= w * w})   \* model widths < 10^4

\* BaseDecider.random_int, wide branch
WideExtra(n, e, width) ==
    IF Variant = "ascoded" THEN Pow(n, e) % width
    ELSE Pow(n, e) % ((width \div 2) + 1)
WideValue(lo, hi, n, e, neg) ==
    LET width == hi - lo
        half  == width \div 2
        x     == WideExtra(n, e, width)
    IN  lo + half + (IF neg THEN -x ELSE x)

-----------------------------------------------------------------------------
Init == pc = "idle" /\ call = NoCall /\ work = <<>> /\ i = 0 /\ res = 0 /\ raws = <<>>

Start(c) == /\ pc = "idle"
            /\ call' = c /\ pc' = "run" /\ work' = c.lst
            /\ i' = Len(c.lst) - 1 /\ res' = 0 /\ raws' = <<>>

Finish(r, w, raw) == pc' = "done" /\ res' = r /\ work' = w /\ raws' = raws \o raw /\ UNCHANGED <<call, i>>

RandInt == /\ pc = "run" /\ call.prim = "randint"
           /\ \E r \in call.lo..call.hi : Finish(r, work, <<r>>)

Choice == /\ pc = "run" /\ call.prim = "choice"
          /\ \E r \in 0..(Len(call.lst) - 1) : Finish(call.lst[r + 1], work, <<r>>)

RandomBool == /\ pc = "run" /\ call.prim = "random_bool"
              /\ \E r \in 0..1 : Finish(IF r = 0 THEN 1 ELSE 0, work, <<r>>)   \* choice([True, False])

ChoiceWeighted ==
    /\ pc = "run" /\ call.prim = "choice_weighted"
    /\ LET total == SeqSum(call.ws)
       IN \E r \in 0..RawTopWeighted(total) : Finish(WeightedPick(call.ws, r), work, <<r>>)

\* for i in reversed(range(1, len)): j = randint(0, i); swap(i, j)
ShuffleStep ==
    /\ pc = "run" /\ call.prim = "shuffle" /\ i >= 1
    /\ \E j \in 0..i : /\ work' = SwapAt(work, i + 1, j + 1)
                       /\ raws' = Append(raws, j)
    /\ i' = i - 1 /\ UNCHANGED <<pc, call, res>>
ShuffleDone ==
    /\ pc = "run" /\ call.prim = "shuffle" /\ i < 1
    /\ pc' = "done" /\ UNCHANGED <<call, work, i, res, raws>>

\* item = lst.pop(); n = len(lst); k = randint(0, n); k = n -> item; else swap item <-> lst[k]
PopRandom ==
    /\ pc = "run" /\ call.prim = "pop_random" /\ Len(call.lst) >= 1
    /\ LET n    == Len(call.lst) - 1
           item == call.lst[n + 1]
           rest == SubSeq(call.lst, 1, n)
       IN \E k \in 0..n :
            IF k = n THEN Finish(item, rest, <<k>>)
            ELSE Finish(rest[k + 1], [rest EXCEPT ![k + 1] = item], <<k>>)

GeneInt == /\ pc = "run" /\ call.prim = "gene_randint"
           /\ \E g \in Genes : Finish(GeneReduce(g, call.lo, call.hi), work, <<g>>)

DsgeInt == /\ pc = "run" /\ call.prim = "dsge_random_int"
           /\ (Variant = "ascoded" => call.hi # call.lo)      \* the code divides by zero here
           /\ \E g \in Genes : Finish(DsgeReduce(g, call.lo, call.hi), work, <<g>>)

DeciderInt ==
    /\ pc = "run" /\ call.prim = "decider_random_int"
    /\ LET width == call.hi - call.lo IN
       IF width > WideThresh
       THEN \E n \in 0..10, e \in 0..RoundLog10(width), neg \in BOOLEAN :
              Finish(WideValue(call.lo, call.hi, n, e, neg), work, <<n, e, IF neg THEN 0 ELSE 1>>)
       ELSE \E r \in call.lo..call.hi : Finish(r, work, <<r>>)

Reset == pc = "done" /\ pc' = "idle" /\ call' = NoCall /\ work' = <<>> /\ i' = 0 /\ res' = 0 /\ raws' = <<>>

Next == \/ \E c \in Calls : Start(c)
        \/ RandInt \/ Choice \/ RandomBool \/ ChoiceWeighted \/ ShuffleStep \/ ShuffleDone
        \/ PopRandom \/ GeneInt \/ DsgeInt \/ DeciderInt \/ Reset

Spec == Init /\ [][Next]_rvars

-----------------------------------------------------------------------------
(* Invariants: every finished call honours its contract, for ALL raw draws. *)

ContractHolds ==
    pc = "done" =>
      CASE call.prim \in {"randint", "gene_randint", "dsge_random_int", "decider_random_int"}
                                         -> RandIntContract(call.lo, call.hi, res)
        [] call.prim = "choice"          -> ChoiceContract(call.lst, res)
        [] call.prim = "random_bool"     -> res \in {0, 1}
        [] call.prim = "choice_weighted" -> WeightedContract(call.ws, call.ws, res)
        [] call.prim = "shuffle"         -> ShuffleContract(call.lst, work)
        [] call.prim = "pop_random"      -> PopContract(call.lst, work, res)
        [] OTHER -> TRUE

\* a started call can always finish (no primitive gets stuck / divides by zero)
NoStuck == pc = "run" => ENABLED (RandInt \/ Choice \/ RandomBool \/ ChoiceWeighted \/ ShuffleStep
                                  \/ ShuffleDone \/ PopRandom \/ GeneInt \/ DsgeInt \/ DeciderInt)

\* shuffle keeps a permutation at every intermediate step, not only at the end
ShuffleInv == (pc \in {"run", "done"} /\ call.prim = "shuffle") => SameBag(call.lst, work)

\* proportionality of the weighted choice over the whole raw range (a pure set fact)
HitsOf(ws) == [k \in DOMAIN ws |->
                 Cardinality({r \in 0..RawTopWeighted(SeqSum(ws)) : WeightedPick(ws, r) = k})]
Proportional == pc = "idle" => \A c \in Calls : c.prim = "choice_weighted" /\ SeqSum(c.ws) > 0
                    => ProportionalContract(c.ws, HitsOf(c.ws))

View == <<pc, call, work, i, res>>
=============================================================================
