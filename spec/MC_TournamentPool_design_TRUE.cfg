SPECIFICATION Spec
CONSTANT Pool = {1, 2, 3, 4}
CONSTANT TSize = 2
CONSTANT Target = 3
CONSTANT Repl = TRUE
CONSTANT Variant = "design"
INVARIANT PoolIntact
INVARIANT WinnersAreMembers
CHECK_DEADLOCK FALSE
