------------------------------- MODULE MC_C18 -------------------------------
(* Model-checking instance of GERandom: all raw draws, small constants.      *)
EXTENDS GEBase

CONSTANT Variant
VARIABLES pc, call, work, i, res, raws

C(prim, lo, hi, lst, ws) == [prim |-> prim, lo |-> lo, hi |-> hi, lst |-> lst, ws |-> ws]

Bounds == {<<a, b>> \in (-3..3) \X (-3..3) : a <= b}
WideBounds == {<<-3, 9>>, <<0, 11>>, <<0, 12>>, <<-20, 20>>, <<5, 36>>, <<0, 101>>}
Lists == {<<7>>, <<7, 8>>, <<7, 8, 9>>, <<7, 7, 8>>, <<1, 2, 3, 4>>}
WeightVecs == {<<0, 3, 1>>, <<3, 0, 1>>, <<3, 1, 0>>, <<0, 0, 2>>, <<2, 0, 0>>, <<1, 1>>, <<5>>,
               <<0, 1>>, <<1, 0>>, <<2, 3, 5>>, <<0, 0, 0, 4>>}

MCCalls ==
    {C("randint", b[1], b[2], <<>>, <<>>) : b \in Bounds}
    \cup {C("gene_randint", b[1], b[2], <<>>, <<>>) : b \in Bounds}
    \cup {C("dsge_random_int", b[1], b[2], <<>>, <<>>) : b \in Bounds}
    \cup {C("decider_random_int", b[1], b[2], <<>>, <<>>) : b \in Bounds \cup WideBounds}
    \cup {C("choice", 0, 0, l, <<>>) : l \in Lists}
    \cup {C("random_bool", 0, 0, <<>>, <<>>)}
    \cup {C("shuffle", 0, 0, l, <<>>) : l \in Lists \cup {<<>>}}
    \cup {C("pop_random", 0, 0, l, <<>>) : l \in Lists}
    \cup {C("choice_weighted", 0, 0, [k \in DOMAIN w |-> k], w) : w \in WeightVecs}

MCGenes == 0..13 \cup {100, 101, 1023, 1024, 32767}

INSTANCE GERandom WITH Calls <- MCCalls, Genes <- MCGenes, WideThresh <- 10
=============================================================================
