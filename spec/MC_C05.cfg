SPECIFICATION Spec
CONSTANT MaxProds = 3
CONSTANT Bound = 3
CONSTANT PoolIdx = {1,2,3,4,5,6,7,8,9,10,11,12}
CONSTANT NeedWitness = FALSE
INVARIANT MinDepthExact
INVARIANT RecursiveExact
INVARIANT ReachableSound
CHECK_DEADLOCK FALSE
