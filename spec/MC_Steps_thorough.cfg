SPECIFICATION Spec
CONSTANT Split = "design"
CONSTANT Sizes = {2, 3, 4, 5, 6, 7, 8, 9}
CONSTANT Weights = {0, 1, 2, 5}
CONSTANT Gens = 2
INVARIANT PopSizeInvariant
CHECK_DEADLOCK FALSE
