---------------------------- MODULE GEDeterminism ----------------------------
(***************************************************************************)
(* Same seed, same search (property C08) as a self-composition: Runs       *)
(* copies of a search consume the SAME raw random stream (same seed); at   *)
(* every point where the code iterates a hash-ordered collection (the      *)
(* grammar's symbol sets: stack mapping, SGE genotype creation) the        *)
(* ENVIRONMENT - hash seeds, allocation addresses - picks an arbitrary     *)
(* iteration order per run.                                                *)
(*   Iteration = "canonical" : the design - collections are iterated in a  *)
(*                             canonical (sorted) order before indexing    *)
(*   Iteration = "set-order" : indexing into the raw set order (the pinned *)
(*                             stack mapping) - TLC must find a divergence *)
(***************************************************************************)
EXTENDS GEBase
CONSTANTS Symbols, Runs, Steps, Iteration

Perms == {p \in [1..Cardinality(Symbols) -> Symbols] : \A a \in Symbols : \E i \in DOMAIN p : p[i] = a}
Canon == CHOOSE p \in Perms : TRUE            \* some fixed order, the same in every run
Stream(i) == (i * 7 + 3) % 11                 \* the seeded raw stream: identical in all runs

VARIABLES order, pos, log
dvars == <<order, pos, log>>

Init == /\ order \in [Runs -> Perms]          \* the environment's choice, per run
        /\ pos = [r \in Runs |-> 1] /\ log = [r \in Runs |-> <<>>]

\* one evaluation: a raw draw selects an element of the collection
Eval(r) == /\ pos[r] <= Steps
           /\ LET n == Cardinality(Symbols)
                  k == (Stream(pos[r]) % n) + 1
                  chosen == IF Iteration = "canonical" THEN Canon[k] ELSE order[r][k]
              IN log' = [log EXCEPT ![r] = Append(@, chosen)]
           /\ pos' = [pos EXCEPT ![r] = @ + 1]
           /\ UNCHANGED order
Next == \E r \in Runs : Eval(r)
Spec == Init /\ [][Next]_dvars

\* C08: any two runs have evaluated the same sequence so far (one is a prefix of the other)
Agree == \A r1, r2 \in Runs : IsPrefixOf(log[r1], log[r2]) \/ IsPrefixOf(log[r2], log[r1])
=============================================================================
