-------------------------------- MODULE GECsv --------------------------------
(***************************************************************************)
(* CSVSearchRecorder (geneticengine/evaluation/recorder.py) with the file  *)
(* modelled as a user-space buffer `buf` plus the bytes on `disk`, both as *)
(* sequences of complete rows.  A crash (SIGKILL) may happen between any   *)
(* two recorder actions: it drops `buf` and keeps `disk`.                  *)
(*                                                                         *)
(* FlushPolicy = "every-row"    : flush after every written row (design)   *)
(* FlushPolicy = "on-best-only" : flush only when the row is a new best    *)
(*                                (a sensitivity guard: TLC must find the  *)
(*                                 stale disk between two registrations)   *)
(***************************************************************************)
EXTENDS GEBase

CONSTANTS NObj,            \* number of objectives
          OnlyBest,        \* only_record_best_individuals
          Regs,            \* set of possible registrations: [comps, isbest]
          MaxRegs, FlushPolicy

VARIABLES buf, disk, nreg, full, pc, crashed
cvars == <<buf, disk, nreg, full, pc, crashed>>

Header == <<"hdr">>
RowOf(r) == <<"row">> \o r.comps         \* k-th fitness column = k-th component

Init == /\ buf = <<>> /\ disk = <<>> /\ nreg = 0 /\ full = <<>> /\ pc = "new" /\ crashed = FALSE

\* __init__: writerow(header); flush()
Create == /\ pc = "new" /\ ~crashed
          /\ disk' = <<Header>> /\ full' = <<Header>> /\ buf' = <<>> /\ pc' = "idle"
          /\ UNCHANGED <<nreg, crashed>>

\* register(): the row is written into the buffer ...
WriteRow(r) == /\ pc = "idle" /\ ~crashed /\ nreg < MaxRegs
               /\ nreg' = nreg + 1
               /\ IF ~OnlyBest \/ r.isbest
                  THEN /\ buf' = Append(buf, RowOf(r)) /\ full' = Append(full, RowOf(r))
                       /\ pc' = IF FlushPolicy = "every-row" \/ r.isbest THEN "flush" ELSE "idle"
                  ELSE UNCHANGED <<buf, full, pc>>
               /\ UNCHANGED <<disk, crashed>>
\* ... and flushed
Flush == /\ pc = "flush" /\ ~crashed
         /\ disk' = disk \o buf /\ buf' = <<>> /\ pc' = "idle"
         /\ UNCHANGED <<nreg, full, crashed>>

Crash == /\ ~crashed /\ crashed' = TRUE /\ buf' = <<>> /\ UNCHANGED <<disk, nreg, full, pc>>

Next == Create \/ (\E r \in Regs : WriteRow(r)) \/ Flush \/ Crash
Spec == Init /\ [][Next]_cvars

\* between two registrations (pc = "idle") the disk holds the header and one complete row per
\* recorded registration so far
AfterRegister == (pc = "idle" /\ ~crashed) => disk = full
\* whatever survives an interruption is a prefix of the full log
DiskIsPrefix  == IsPrefixOf(disk, full)
\* interrupted BETWEEN two registrations: nothing that was registered is missing
CrashBetweenRegistrationsLosesNothing == (crashed /\ pc = "idle") => disk = full
\* one row per registration (or per improvement)
RowCount == Len(full) <= nreg + 1
=============================================================================
