SPECIFICATION Spec
CONSTANT MaxPop = 4
CONSTANT Order = "best-first"
INVARIANT SelectionSound
INVARIANT OutMembers
INVARIANT ExactlyK
CHECK_DEADLOCK FALSE
