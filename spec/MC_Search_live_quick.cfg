SPECIFICATION FairSpec
CONSTANT Configs <- QuickLiveConfigs
CONSTANT MaxInd = 6
PROPERTY Terminates
CHECK_DEADLOCK FALSE
