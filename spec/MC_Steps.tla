------------------------------ MODULE MC_Steps ------------------------------
(***************************************************************************)
(* Model-checking instance for C15: TLC enumerates the configuration space *)
(* itself - every composition of depth one (Sequence of 2-3 leaves,        *)
(* Parallel / ExclusiveParallel of 2-3 leaves with every weight vector     *)
(* over Weights) and every population size in Sizes - and runs generations *)
(* of the length semantics of GESteps.                                     *)
(***************************************************************************)
EXTENDS GESteps

CONSTANTS Split, Sizes, Weights, Gens

LeafKinds == {"elitism", "novelty", "tournament", "mutation", "crossover", "identity", "evaluate"}
Leaves == {Leaf(k) : k \in LeafKinds}
Tuples2(S) == {<<a, b>> : a \in S, b \in S}
Tuples3(S) == {<<a, b, c>> : a \in S, b \in S, c \in S}
WVecs(n) == {w \in [1..n -> Weights] : \E i \in 1..n : w[i] > 0}

Depth1 == Leaves
          \cup {Comb("seq", s, <<>>) : s \in Tuples2(Leaves) \cup Tuples3(Leaves)}
          \cup {Comb(kd, s, w) : kd \in {"par", "xpar"}, s \in Tuples2(Leaves), w \in WVecs(2)}
          \cup {Comb(kd, s, w) : kd \in {"par", "xpar"}, s \in Tuples3(Leaves), w \in WVecs(3)}

VARIABLES step, size, pop, gen
svars == <<step, size, pop, gen>>

Init == step \in Depth1 /\ size \in Sizes /\ pop = size /\ gen = 0
Next == /\ gen < Gens /\ pop # ERR
        /\ pop' \in OutLens(Split, step, pop, size)
        /\ gen' = gen + 1 /\ UNCHANGED <<step, size>>
Spec == Init /\ [][Next]_svars

\* C15: every generation has exactly the configured size
PopSizeInvariant == pop = size
=============================================================================
