SPECIFICATION Spec
CONSTANT Variant = "ascoded"
INVARIANT ContractHolds
INVARIANT NoStuck
INVARIANT ShuffleInv
INVARIANT Proportional
VIEW View
CHECK_DEADLOCK FALSE
