------------------------------ MODULE Trace_C18 ------------------------------
(* Trace validation for C18: contracts of GERandom evaluated on recorded calls. *)
EXTENDS GEBase, TraceKit

\* the contracts come from GERandom; its machine variables/constants are not used here
R == INSTANCE GERandom WITH Variant <- "design", Calls <- {}, Genes <- {}, WideThresh <- 1000,
                            pc <- "idle", call <- 0, work <- <<>>, i <- 0, res <- 0, raws <- <<>>

IntNames == {"randint", "random_float", "decider_random_int"}

HitsFromPicks(ws, picks) == [k \in DOMAIN ws |-> Cardinality({j \in DOMAIN picks : picks[j] = k})]

C18Clause(s, ev, cfg) ==
    IF ev.e = "stream" THEN (IF ev.a = ev.b THEN "ok" ELSE "C18:streams-differ")
    ELSE IF ev.e = "wsweep" THEN
        (IF SeqSum(ev.ws) = 0 \/ R!ProportionalContract(ev.ws, HitsFromPicks(ev.ws, ev.picks))
         THEN "ok" ELSE "C18:weighted-proportion")
    ELSE IF ev.exc # "" THEN "C18:raises"
    ELSE IF ev.name \in IntNames THEN
        (IF R!RandIntContract(ev.lo, ev.hi, ev.r) THEN "ok" ELSE "C18:int-bounds")
    ELSE IF ev.name = "choice" THEN
        (IF R!ChoiceContract(ev.lst, ev.r) THEN "ok" ELSE "C18:choice-member")
    ELSE IF ev.name = "choice_weighted" THEN
        (IF R!WeightedContract(ev.ws, ev.ws, ev.r) THEN "ok" ELSE "C18:weighted-zero")
    ELSE IF ev.name = "shuffle" THEN
        (IF R!ShuffleContract(ev.lst, ev.after) THEN "ok" ELSE "C18:shuffle-perm")
    ELSE IF ev.name = "pop_random" THEN
        (IF R!PopContract(ev.lst, ev.after, ev.r) THEN "ok" ELSE "C18:pop")
    ELSE IF ev.name = "random_bool" THEN
        (IF ev.ty = "bool" THEN "ok" ELSE "C18:bool-type")
    ELSE "C18:unknown-event"

C18Attrs(s, ev, cfg) ==
    IF ev.e \in {"stream"} THEN <<"Native">>
    ELSE IF ev.e = "wsweep" THEN <<ev.src, "choice_weighted">>
    ELSE IF ev.exc # "" THEN <<ev.src, ev.name, ev.exc>>
    ELSE <<ev.src, ev.name>>

TInit   == tid \in 1..NTraces /\ InitWith(0)
TNext   == Step(C18Clause(st, Ev, Cfg), C18Attrs(st, Ev, Cfg), st)
TSpec   == TInit /\ [][TNext]_tvars
Collect == CollectWith("ok")
=============================================================================
