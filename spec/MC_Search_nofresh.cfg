SPECIFICATION FairSpec
CONSTANT Configs <- NoFreshConfigs
CONSTANT MaxInd = 9
PROPERTY Terminates
CHECK_DEADLOCK FALSE
