SPECIFICATION Spec
CONSTANT FlushPolicy = "every-row"
CONSTANT OnlyBest = FALSE
INVARIANT AfterRegister
INVARIANT DiskIsPrefix
INVARIANT CrashBetweenRegistrationsLosesNothing
INVARIANT RowCount
CHECK_DEADLOCK FALSE
