------------------------------- MODULE MC_C08 -------------------------------
EXTENDS GEBase
CONSTANT Iteration
VARIABLES order, pos, log
INSTANCE GEDeterminism WITH Symbols <- {"A", "B", "C"}, Runs <- {1, 2}, Steps <- 4
=============================================================================
