SPECIFICATION Spec
CONSTANT Dynamic = FALSE
CONSTANT Purity = "pure"
INVARIANT MapStable
INVARIANT MapDoesNotDraw
PROPERTY AppendOnly
CHECK_DEADLOCK FALSE
