SPECIFICATION Spec
CONSTANT Split = "design"
CONSTANT Sizes = {2}
CONSTANT Weights = {0, 1, 2, 5}
CONSTANT Gens = 0
CONSTANT NDeep = 4000
CHECK_DEADLOCK FALSE
