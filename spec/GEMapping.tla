------------------------------ MODULE GEMapping ------------------------------
(***************************************************************************)
(* Genotype -> phenotype mapping of the genotype-based representations     *)
(* (ge.py, structured_ge.py, dynamic_structured_ge.py, stackgggp) next to  *)
(* the search's SHARED random stream (property C07).                       *)
(*                                                                         *)
(*   shared    number of raw draws consumed from the shared stream          *)
(*   genes[g]  the genes of genotype g (a sequence; structure is           *)
(*             irrelevant for purity)                                      *)
(*   need[g]   how many genes a mapping of g reads (dynamic SGE extends    *)
(*             the genotype on demand up to this number)                   *)
(*   memo[g]   the phenotype observed the first time g was mapped          *)
(* A phenotype is modelled as the value the mapping function is applied    *)
(* to: Pure   -> <<genes read>>                                            *)
(*     Impure -> <<genes read, position of the shared stream>> (what the   *)
(*               pinned GE / SGE mapping does: structural decisions are    *)
(*               taken from the decider's shared source) - kept as a       *)
(*               sensitivity guard, TLC must reject it.                    *)
(***************************************************************************)
EXTENDS GEBase

CONSTANTS MaxGenotypes, MaxSteps, Dynamic, Purity     \* Dynamic: dSGE-style on-demand extension

VARIABLES shared, genes, need, memo, steps, lastMapDraws
mvars == <<shared, genes, need, memo, steps, lastMapDraws>>

None == [has |-> FALSE, v |-> <<>>]
Some(x) == [has |-> TRUE, v |-> x]
Gs == DOMAIN genes

Init == shared = 0 /\ genes = <<>> /\ need = <<>> /\ memo = <<>> /\ steps = 0 /\ lastMapDraws = 0

Fresh(k) == [i \in 1..k |-> shared + i]          \* values drawn from the shared stream are all distinct

Create == /\ Len(genes) < MaxGenotypes /\ steps < MaxSteps
          /\ \E len \in 0..2, nd \in 1..3 :
               /\ (~Dynamic => len = 2 /\ nd <= 2)                      \* fixed-length genotypes are complete
               /\ (Dynamic => len = 0)                                  \* dSGE genotypes start empty
               /\ genes' = Append(genes, Fresh(len)) /\ need' = Append(need, nd)
               /\ shared' = shared + len
          /\ memo' = Append(memo, None) /\ steps' = steps + 1 /\ lastMapDraws' = 0

\* any other use of the shared source (selection, mutation of other individuals, ...)
Draw == /\ steps < MaxSteps /\ shared' = shared + 1 /\ steps' = steps + 1 /\ lastMapDraws' = 0
        /\ UNCHANGED <<genes, need, memo>>

PhenoOf(gs, nd) == IF Purity = "pure" THEN SubSeq(gs, 1, nd) ELSE <<SubSeq(gs, 1, nd), shared>>

Map(g) == /\ steps < MaxSteps
          /\ LET missing == IF Len(genes[g]) >= need[g] THEN 0 ELSE need[g] - Len(genes[g])
                 gs2     == genes[g] \o Fresh(missing)
             IN /\ (missing > 0 => Dynamic)
                /\ genes' = [genes EXCEPT ![g] = gs2]
                /\ shared' = shared + missing + (IF Purity = "pure" THEN 0 ELSE 1)
                /\ lastMapDraws' = shared' - shared - missing                \* draws that are NOT gene extension
                /\ memo' = [memo EXCEPT ![g] = IF ~memo[g].has THEN Some(PhenoOf(gs2, need[g])) ELSE memo[g]]
                /\ LET again == PhenoOf(gs2, need[g]) IN TRUE
          /\ steps' = steps + 1 /\ UNCHANGED need

\* point mutation: a new genotype, one gene redrawn
Mutate(g) == /\ Len(genes) < MaxGenotypes /\ steps < MaxSteps /\ Len(genes[g]) >= 1
             /\ \E i \in DOMAIN genes[g] :
                  genes' = Append(genes, [genes[g] EXCEPT ![i] = shared + 1])
             /\ need' = Append(need, need[g]) /\ memo' = Append(memo, None)
             /\ shared' = shared + 2 /\ steps' = steps + 1 /\ lastMapDraws' = 0

Next == Create \/ Draw \/ (\E g \in Gs : Map(g) \/ Mutate(g))
Spec == Init /\ [][Next]_mvars

\* C07: mapping again gives the phenotype seen first, whatever happened in between
MapStable == \A g \in Gs : memo[g].has => memo[g].v = PhenoOf(genes[g], need[g])
\* C07: a mapping takes nothing from the shared stream except (dSGE) the genes it appends to its genotype
MapDoesNotDraw == lastMapDraws = 0
\* dSGE extension only appends: genes already present never change
AppendOnly == [][\A g \in DOMAIN genes : IsPrefixOf(genes[g], genes'[g])]_mvars
=============================================================================
