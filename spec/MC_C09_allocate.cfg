SPECIFICATION Spec
CONSTANT Discipline = "allocate"
PROPERTY HeapAppendOnly
CHECK_DEADLOCK FALSE
