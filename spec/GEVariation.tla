------------------------------ MODULE GEVariation ------------------------------
(***************************************************************************)
(* Variation operators (property C06): what crossover and point mutation   *)
(* may produce, for tree genotypes (treebased.py: tree_crossover / mutate),*)
(* linear genotypes (ge.py, stackgggp) and structured genotypes            *)
(* (structured_ge.py, dynamic_structured_ge.py).                           *)
(***************************************************************************)
EXTENDS GEMeta

\* ---- trees ---------------------------------------------------------------------------------
RECURSIVE Subterms(_)
Subterms(t) == {t} \cup UNION {Subterms(t.kids[i]) : i \in DOMAIN t.kids}

\* declarative definition: all results of replacing ONE subterm of p1 by a subterm of p2
RECURSIVE ReplaceOne(_, _)
ReplaceOne(p1, donors) ==
    donors \cup UNION {{[p1 EXCEPT !.kids[i] = r] : r \in ReplaceOne(p1.kids[i], donors)} : i \in DOMAIN p1.kids}
TreeXO(p1, p2) == ReplaceOne(p1, Subterms(p2))

\* linear-time recogniser used on traces: descend while the two terms agree except in one child
RECURSIVE IsRecomb(_, _, _)
IsRecomb(p1, c, donors) ==
    \/ c \in donors
    \/ /\ p1.k = c.k /\ p1.ty = c.ty /\ p1.iv = c.iv /\ p1.cs = c.cs /\ Len(p1.kids) = Len(c.kids)
       /\ LET diff == {i \in DOMAIN c.kids : p1.kids[i] # c.kids[i]}
          IN \/ (diff = {} /\ Subterms(p1) \cap donors # {})       \* a subterm replaced by an identical one
             \/ (Cardinality(diff) = 1 /\ \E i \in diff : IsRecomb(p1.kids[i], c.kids[i], donors))

\* ---- linear genotypes: sequences of genes ------------------------------------------------------
LinearXOOK(p1, p2, c) == /\ Len(c) = Len(p1) /\ Len(c) = Len(p2)
                         /\ \A i \in DOMAIN c : c[i] = p1[i] \/ c[i] = p2[i]
Hamming(a, b) == Cardinality({i \in DOMAIN a : a[i] # b[i]})
PointMutOK(g, m) == Len(m) = Len(g) /\ Hamming(g, m) <= 1

\* ---- structured genotypes: one gene list per key; a genotype is a sequence (over a common key order) of
\*      [has |-> BOOLEAN, g |-> <<genes>>]
StructXOOK(p1, p2, c) ==
    \A k \in DOMAIN c :
        c[k].has => /\ (p1[k].has \/ p2[k].has)
                    /\ \A i \in DOMAIN c[k].g :
                          \/ (p1[k].has /\ i \in DOMAIN p1[k].g /\ c[k].g[i] = p1[k].g[i])
                          \/ (p2[k].has /\ i \in DOMAIN p2[k].g /\ c[k].g[i] = p2[k].g[i])
StructShapeSame(g, m) == \A k \in DOMAIN g : g[k].has = m[k].has /\ Len(g[k].g) = Len(m[k].g)
StructDiff(g, m) == SeqSum([k \in DOMAIN g |-> IF g[k].has /\ m[k].has /\ Len(g[k].g) = Len(m[k].g)
                                                THEN Hamming(g[k].g, m[k].g) ELSE 0])
StructMutOK(g, m) == StructShapeSame(g, m) /\ StructDiff(g, m) <= 1
=============================================================================
