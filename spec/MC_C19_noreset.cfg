SPECIFICATION Spec
CONSTANT ResetPerRule = FALSE
INVARIANT NonNegative
INVARIANT SumToOne
INVARIANT RatiosKept
INVARIANT Idempotent
CHECK_DEADLOCK FALSE
