------------------------------- MODULE Gen_Map -------------------------------
(* (R) TLC generates the interleavings of mapping calls with other uses of the shared random source
   that are replayed on the real representations: sequences over
   create | map i | draw | mutate i | xo i   (i indexes the genotypes alive so far, modulo their number) *)
EXTENDS Naturals, Sequences, FiniteSets, TLC, Json, IOUtils, Randomization
CONSTANTS MaxLen, NSample
Acts == {<<"create", 0>>, <<"draw", 0>>} \cup {<<a, i>> : a \in {"map", "mutate", "xo"}, i \in 0..2}
Seqs == UNION {[1..k -> Acts] : k \in 1..MaxLen}
Short == UNION {[1..k -> Acts] : k \in 1..2}
ASSUME JsonSerialize(IOEnv.GEN_OUT, [seqs |-> Short \cup RandomSubset(NSample, Seqs)])
VARIABLE x
Spec == x = 0 /\ [][UNCHANGED x]_x
=============================================================================
