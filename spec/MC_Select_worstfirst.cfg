SPECIFICATION Spec
CONSTANT MaxPop = 3
CONSTANT Order = "worst-first"
INVARIANT SelectionSound
INVARIANT OutMembers
INVARIANT ExactlyK
CHECK_DEADLOCK FALSE
