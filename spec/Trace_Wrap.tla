------------------------------ MODULE Trace_Wrap ------------------------------
(***************************************************************************)
(* ADVISORY conformance (beyond the listed properties):                    *)
(* problems.wrap_depth_minimization(p) is documented as "p plus a penalty  *)
(* for bigger trees".  As an order on programs:                            *)
(*   - whenever p strictly prefers a to b, so does the wrapped problem;    *)
(*   - when p ties a and b and a is shallower, the wrapped problem         *)
(*     strictly prefers a.                                                 *)
(* Events: pair [fa, fb, da, db, orig_a, orig_b, wrap_a, wrap_b] - the     *)
(* fitness values (ranks) and depths of two programs and which one each    *)
(* problem's is_better prefers.                                            *)
(***************************************************************************)
EXTENDS GEBase, TraceKit

Mini == Cfg.mini
StrictlyPrefersA(ev) == IF Mini THEN ev.fa < ev.fb ELSE ev.fa > ev.fb
StrictlyPrefersB(ev) == IF Mini THEN ev.fb < ev.fa ELSE ev.fb > ev.fa

Clause(ev) ==
    IF ev.e # "pair" THEN "ok"
    ELSE IF ev.orig_a # StrictlyPrefersA(ev) \/ ev.orig_b # StrictlyPrefersB(ev) THEN "wrap:original-problem-order"   \* sanity of the oracle
    ELSE IF StrictlyPrefersA(ev) /\ ~ev.wrap_a THEN "wrap:preference-of-the-problem-lost"
    ELSE IF StrictlyPrefersB(ev) /\ ~ev.wrap_b THEN "wrap:preference-of-the-problem-lost"
    ELSE IF ev.fa = ev.fb /\ ev.da < ev.db /\ ~ev.wrap_a THEN "wrap:shallower-not-preferred-on-ties"
    ELSE IF ev.fa = ev.fb /\ ev.db < ev.da /\ ~ev.wrap_b THEN "wrap:shallower-not-preferred-on-ties"
    ELSE "ok"

TInit   == tid \in 1..NTraces /\ InitWith(0)
TNext   == Step(Clause(Ev), <<IF Mini THEN "minimise" ELSE "maximise">>, st)
TSpec   == TInit /\ [][TNext]_tvars
Collect == CollectWith("ok")
=============================================================================
