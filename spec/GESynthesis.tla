----------------------------- MODULE GESynthesis -----------------------------
(***************************************************************************)
(* create_node (geneticengine/representations/tree/initializations.py) as  *)
(* a leftmost derivation machine over a term with typed holes, driven by   *)
(* the depth-limited deciders.                                             *)
(*                                                                         *)
(*   state   : one (partial) program; a hole is [k |-> "hole", f, c] with  *)
(*             f the form still to derive and c the context depth (number  *)
(*             of enclosing grammar nodes)                                 *)
(*   actions : DeciderNew / RejectUpfront, Expand (one decision of the     *)
(*             decider or of a metahandler on the leftmost hole), Finish   *)
(*   grammar : a VARIABLE that no action may change (property C10)         *)
(*                                                                         *)
(* Deciders choose among the productions that still FIT the remaining      *)
(* depth, judged with the minimum depths the grammar analysis reports:     *)
(*   Reported == MinDepthV(G, Dev)                                         *)
(* The progressively-terminal decider ("pt") has no limit; its rule is     *)
(* PtSetD of GESynthesisRules and its termination is PtDepthBounded.       *)
(* Dev = {} is the exact analysis (then list lengths must be chosen        *)
(* depth-aware: an element that does not fit forces the empty list);       *)
(* Dev = {"list-assumed-nonempty"} is what the implementation does today.  *)
(***************************************************************************)
EXTENDS GESynthesisRules

CONSTANTS Grammars,      \* set of declared grammars explored
          Deciders,      \* subset of {"grow", "full", "pigrow"}
          Offsets,       \* depth limits explored, relative to the reported minimum of the start symbol
          Dev,           \* deviations of the reported distances (see GEGrammar)
          MaxPlainLen    \* bound on the length drawn for un-annotated lists (code: random_int(0, 10))

VARIABLES G, dec, maxd, term, pc
yvars == <<G, dec, maxd, term, pc>>

Hole(f, c) == [k |-> "hole", f |-> f, c |-> c]
IsHole(t)  == t.k = "hole"
RECURSIVE HasHole(_)
HasHole(t) == IsHole(t) \/ (~IsHole(t) /\ \E i \in DOMAIN t.kids : HasHole(t.kids[i]))

Reported(g)  == MinDepthV(g, Dev \ {"pt-fallback-any"})
FormDist(g, f) == FormMinV(f, Reported(g), Dev)
Rem(c)       == maxd - c

\* ---- what a decider may choose for an abstract symbol / a union at context depth c ----------
\* (the rules themselves live in GESynthesisRules, parameterised by the distance function, so that the
\*  decision-level trace specification Trace_Derive can apply them to the implementation's distances)
Fits(g, f, c)   == FormDist(g, f) <= Rem(c)
IsRecForm(g, f) == f.k = "sym" /\ Recursive(g, f.s)
\* the progressively-terminal decider aims at the largest minimum depth of any symbol (get_max_node_depth)
PtTarget(g) == LET m == SMax({Reported(g)[s] : s \in Reachable(g)})
               IN IF m >= INF THEN Reported(g)[g.start] * Cardinality(RecursiveSet(g) \cap Reachable(g)) ELSE m
FormW(g, f) == IF f.k = "sym" /\ Known(g, f.s) THEN RawW(g, f.s) ELSE 10000
PtFallback  == IF "pt-fallback-any" \in Dev THEN "any" ELSE "closest"
Choices(g, d, alts, c) ==
    IF d = "pt" THEN PtSetD(LAMBDA f : FormDist(g, f), LAMBDA f : IsRecForm(g, f), LAMBDA f : FormW(g, f), alts, c,
                            PtTarget(g), PtFallback)
    ELSE ChoicesD(LAMBDA f : FormDist(g, f), LAMBDA f : IsRecForm(g, f), d, alts, c, maxd)

ElemForm(f) == IF f.k = "ann" THEN f.es[1].es[1] ELSE f.es[1]
Holes(f, n, c) == [i \in 1..n |-> Hole(f, c)]

\* list lengths: the exact analysis needs depth-aware lengths, the as-coded one draws freely
Lengths(g, lo, hi, elem, c) ==
    IF "list-assumed-nonempty" \in Dev THEN lo..hi
    ELSE {n \in lo..hi : n = 0 \/ Fits(g, elem, c)}

\* ---- one expansion of a hole: the set of terms it may become --------------------------------
Expand1(g, d, h) ==
    LET f == h.f  c == h.c IN
    CASE f.k = "sym" /\ Known(g, f.s) /\ IsAbs(g, f.s) ->
             {Hole(a, c) : a \in Choices(g, d, {SymF(p) : p \in Prods(g, f.s)}, c)}
      [] f.k = "sym" /\ Known(g, f.s) ->
             {Node(f.s, [i \in DOMAIN Fields(g, f.s) |-> Hole(Fields(g, f.s)[i].f, c + 1)])}
      [] f.k = "union" -> {Hole(a, c) : a \in Choices(g, d, RangeOf(f.es), c)}
      [] f.k = "tuple" -> {TupleT([i \in DOMAIN f.es |-> Hole(f.es[i], c)])}
      [] f.k = "list"  -> {ListT(Holes(f.es[1], n, c)) : n \in Lengths(g, 0, MaxPlainLen, f.es[1], c)}
      [] f.k = "base" /\ f.s = "bool" -> {BoolV(0), BoolV(1)}
      [] f.k = "base" /\ f.s = "int"  -> {IntV(0)}                 \* unrefined values are abstracted
      [] f.k = "ann" /\ f.mh.k = "IntRange" -> {IntV(v) : v \in f.mh.lo..f.mh.hi}
      [] f.k = "ann" /\ f.mh.k = "IntList"  -> {IntV(f.mh.vals[i]) : i \in DOMAIN f.mh.vals}
      [] f.k = "ann" /\ f.mh.k = "VarRange" -> {StrV(f.mh.opts[i]) : i \in DOMAIN f.mh.opts}
      [] f.k = "ann" /\ f.mh.k = "ListSize" ->
             {ListT(Holes(ElemForm(f), n, c)) : n \in Lengths(g, f.mh.lo, f.mh.hi, ElemForm(f), c)}
      [] OTHER -> {}

\* expansions of the LEFTMOST hole of a term
RECURSIVE Expansions(_, _, _)
Expansions(g, d, t) ==
    IF IsHole(t) THEN Expand1(g, d, t)
    ELSE LET holes == {i \in DOMAIN t.kids : HasHole(t.kids[i])}
         IN IF holes = {} THEN {}
            ELSE LET i == SMin(holes)
                 IN {[t EXCEPT !.kids[i] = x] : x \in Expansions(g, d, t.kids[i])}

\* the same derivation as a set-valued function: every complete term derivable from form f at depth c
RECURSIVE Derive(_, _, _, _)
DeriveAll(g, d, hs) ==          \* hs: sequence of holes -> set of sequences of complete terms
    LET RECURSIVE Go(_)
        Go(s) == IF s = <<>> THEN {<<>>}
                 ELSE {<<x>> \o r : x \in Derive(g, d, Head(s).f, Head(s).c), r \in Go(Tail(s))}
    IN Go(hs)
Derive(g, d, f, c) ==
    UNION {IF IsHole(t) THEN Derive(g, d, t.f, t.c)
           ELSE IF t.kids = <<>> THEN {t}
           ELSE {[t EXCEPT !.kids = ks] : ks \in DeriveAll(g, d, t.kids)}
           : t \in Expand1(g, d, Hole(f, c))}

-----------------------------------------------------------------------------
StartMin(g) == Reported(g)[g.start]

Init == /\ G \in Grammars /\ dec \in Deciders
        /\ maxd \in {StartMin(G) + o : o \in Offsets} /\ maxd >= 0
        /\ term = Hole(StartForm(G), 0) /\ pc = "new"

\* MaxDepthDecider.validate: a limit below the reported minimum is rejected before any decision
DeciderNew == /\ pc = "new"
              /\ pc' = IF maxd < StartMin(G) THEN "rejected" ELSE "run"
              /\ UNCHANGED <<G, dec, maxd, term>>
Expand == /\ pc = "run" /\ HasHole(term)
          /\ term' \in Expansions(G, dec, term)
          /\ UNCHANGED <<G, dec, maxd, pc>>
Finish == /\ pc = "run" /\ ~HasHole(term)
          /\ pc' = "done" /\ UNCHANGED <<G, dec, maxd, term>>

Next == DeciderNew \/ Expand \/ Finish
Spec == Init /\ [][Next]_yvars

-----------------------------------------------------------------------------
RECURSIVE PartialDepth(_)
PartialDepth(t) == IF IsHole(t) THEN 0
                   ELSE LET below == SMax({PartialDepth(t.kids[i]) : i \in DOMAIN t.kids} \cup {0})
                        IN IF t.k = "node" THEN 1 + below ELSE below

(* C01 / C02 *) WellTypedWhenDone == pc = "done" => WellTyped(term, StartForm(G), G) /\ RefOK(term, StartForm(G), G)
(* C03 *)       DepthOK  == PartialDepth(term) <= (IF pc = "new" THEN PartialDepth(term) ELSE maxd)
                NoStuck  == (pc = "run" /\ HasHole(term)) => Expansions(G, dec, term) # {}
                RejectedOnlyBelowMin == (pc = "rejected") <=> (pc # "new" /\ maxd < StartMin(G))
\* the decider without a depth limit still ends: past the target depth it heads for a terminal, so no
\* derivation grows beyond twice the target depth (checked by TLC for every grammar of the family)
PtBound(g) == 2 * PtTarget(g) + 1
PtDepthBounded == dec = "pt" => PartialDepth(term) <= PtBound(G)
(* C10 *)       GrammarReadOnly == [][G' = G]_yvars
(* C04 *)       GrowExact  == (pc = "new" /\ dec = "grow" /\ maxd >= StartMin(G))
                                 => Derive(G, "grow", StartForm(G), 0) = Lang(G, StartForm(G), maxd)
                InsideLang == (pc = "new" /\ maxd >= StartMin(G))
                                 => Derive(G, dec, StartForm(G), 0) \subseteq Lang(G, StartForm(G), maxd)
                MachineAgrees == pc = "done" => term \in Derive(G, dec, StartForm(G), 0)
=============================================================================
