---------------------------- MODULE GELocalSearch ----------------------------
(***************************************************************************)
(* The loops of the local-search algorithms at the grain of one individual *)
(* (algorithms/one_plus_one.py, algorithms/hill_climbing.py): who is the   *)
(* parent of each new individual, and what the tracker holds as best.      *)
(* Individuals are numbered in order of birth; fit[i] is any value of      *)
(* 0..MaxFit (the landscape is left to TLC), parent[i] is 0 for a created  *)
(* individual and the number of the mutated one otherwise.                 *)
(*   Alg "OPO": batches of one;  Alg "HC": first a batch of one, then      *)
(*   batches of K mutants of ONE parent chosen when the batch starts.      *)
(*   Variant "design"  : after the first individual every newcomer is a    *)
(*                       mutant of the tracker's current best              *)
(*   Variant "ascoded" : OPO - `current_ind` is never assigned, so every   *)
(*                       individual is created afresh (random search);     *)
(*                       HC - the mutated genotype is `ind`, the FIRST     *)
(*                       individual, not `current_ind`                     *)
(* The budget clauses of C14 (stop at the first check with evals >= N,     *)
(* window smaller than one batch) and the monotone best of C12 hold in     *)
(* BOTH variants; ParentIsBest / NeverWorseThanParentLine are the          *)
(* documented local-search behaviour and fail as coded (advisory, see      *)
(* Trace_Lineage).                                                         *)
(***************************************************************************)
EXTENDS Naturals, FiniteSets, Sequences

CONSTANTS Alg, Variant, K, N, MaxFit
VARIABLES fit, parent, best, pc, inbatch, bparent, done

lvars == <<fit, parent, best, pc, inbatch, bparent, done>>
Born  == Len(fit)
Batch == IF Alg = "OPO" \/ Born = 0 THEN 1 ELSE K

Init == /\ fit = <<>> /\ parent = <<>> /\ best = 0 /\ pc = "check"
        /\ inbatch = 0 /\ bparent = 0 /\ done = FALSE

\* is_done(): the only place the budget is looked at
Check ==
    /\ pc = "check" /\ ~done
    /\ IF Born >= N THEN done' = TRUE /\ pc' = "stop" /\ UNCHANGED <<inbatch, bparent>>
       ELSE /\ done' = FALSE /\ pc' = "breed" /\ inbatch' = 0
            /\ bparent' = IF Born = 0 THEN 0
                          ELSE IF Variant = "design" THEN best
                          ELSE IF Alg = "OPO" THEN 0 ELSE 1
    /\ UNCHANGED <<fit, parent, best>>

\* one individual is produced and evaluated; the tracker updates its best on strict improvement
Breed ==
    /\ pc = "breed"
    /\ \E f \in 0..MaxFit :
          /\ fit' = Append(fit, f)
          /\ parent' = Append(parent, bparent)
          /\ best' = IF best = 0 \/ f > fit[best] THEN Born + 1 ELSE best
    /\ inbatch' = inbatch + 1
    /\ pc' = IF inbatch + 1 >= (IF Alg = "OPO" \/ Born = 0 THEN 1 ELSE K) THEN "check" ELSE "breed"
    /\ UNCHANGED <<bparent, done>>

Next == Check \/ Breed
Spec == Init /\ [][Next]_lvars /\ WF_lvars(Next)

TypeOK == /\ Len(parent) = Len(fit) /\ best \in 0..Born /\ pc \in {"check", "breed", "stop"}
          /\ \A i \in DOMAIN parent : parent[i] < i
\* --- hold in both variants -------------------------------------------------
BestIsMax     == best # 0 => \A i \in DOMAIN fit : fit[i] <= fit[best]
BestIsFirstMax== best # 0 => \A i \in 1..(best - 1) : fit[i] < fit[best]
\* C14: stops at the first check with Born >= N; never overshoots by a whole batch
Window        == done => Born >= N /\ Born < N + (IF Alg = "OPO" THEN 1 ELSE K)
NoEarlyStop   == pc = "stop" => done
Terminates    == <>done
\* --- the documented local search --------------------------------------------
\* every individual after the first is a mutant ...
OffspringAreMutants == \A i \in DOMAIN parent : i > 1 => parent[i] # 0
\* ... of the individual that was the tracker's best when its batch started
BestAt(n) == IF n = 0 THEN 0 ELSE CHOOSE b \in 1..n : (\A j \in 1..n : fit[j] <= fit[b]) /\ (\A j \in 1..(b - 1) : fit[j] < fit[b])
BatchStart(i) == IF Alg = "OPO" \/ i = 1 THEN i - 1 ELSE 1 + ((i - 2) \div K) * K
ParentIsBest  == \A i \in DOMAIN parent : i > 1 => parent[i] = BestAt(BatchStart(i))
=============================================================================
