SPECIFICATION TSpec
CONSTRAINT Collect
POSTCONDITION WriteVerdicts
CHECK_DEADLOCK FALSE
