------------------------------ MODULE Trace_C04 ------------------------------
(***************************************************************************)
(* C04 (and the creatable-set clause of C10), mechanism (E): the real      *)
(* create_genotype is driven through ALL sequences of random decisions by  *)
(* a scripted source; the SET of programs it produced is compared, inside  *)
(* TLC, with the bounded language Lang(G, start, d) computed from the      *)
(* declared grammar alone.                                                 *)
(* Event impl_set [decider, d, programs, errors, phase]                    *)
(***************************************************************************)
EXTENDS GEMeta, TraceKit

Prop == Batch.meta.prop
G == Cfg.g

RECURSIVE HasEmptyList(_)
HasEmptyList(t) == (t.k = "list" /\ t.kids = <<>>) \/ \E i \in DOMAIN t.kids : HasEmptyList(t.kids[i])

\* full programs: every node without node descendants sits exactly at level d
RECURSIVE HasNode(_)
HasNode(t) == t.k = "node" \/ \E i \in DOMAIN t.kids : HasNode(t.kids[i])
RECURSIVE IsFullAt(_, _, _)
IsFullAt(t, level, d) ==
    IF t.k = "node"
    THEN IF \E i \in DOMAIN t.kids : HasNode(t.kids[i])
         THEN \A i \in DOMAIN t.kids : IsFullAt(t.kids[i], level + 1, d)
         ELSE level = d
    ELSE \A i \in DOMAIN t.kids : IsFullAt(t.kids[i], level, d)
FullLang(d) == {t \in Lang(G, StartForm(G), d) : IsFullAt(t, 1, d)}

\* the full clause is only defined where every node-typed field is of a recursive abstract type
\* ... and no list may be empty (an empty list ends a branch early without being a shallower choice)
RECURSIVE NodeFormsOK(_)
NodeFormsOK(f) == CASE f.k = "sym" -> IsAbs(G, f.s) /\ Recursive(G, f.s)
                    [] f.k = "list" -> FALSE
                    [] f.k = "ann" /\ f.mh.k = "ListSize" -> f.mh.lo >= 1 /\ NodeFormsOK(f.es[1].es[1])
                    \* a union that mixes node alternatives with plain values: choosing the value ends the branch
                    \* early although a node still fits, so "all branches end at the maximum depth" does not say
                    \* which of the two a full program takes; the clause is not defined there
                    [] f.k = "union" -> \/ /\ \A i \in DOMAIN f.es : NodeFormsOK(f.es[i])
                                           /\ \A i, j \in DOMAIN f.es : (FormSyms(f.es[i]) = {}) = (FormSyms(f.es[j]) = {})
                                        \* a union of classes one of which is a recursive abstract type: a concrete member
                                        \* simply ends its branch and has to sit at the maximum depth like every leaf
                                        \/ /\ \A i \in DOMAIN f.es : f.es[i].k = "sym"
                                           /\ \E i \in DOMAIN f.es : IsAbs(G, f.es[i].s) /\ Recursive(G, f.es[i].s)
                    [] f.k \in {"tuple", "ann"} -> \A i \in DOMAIN f.es : NodeFormsOK(f.es[i])
                    [] OTHER -> TRUE
FullDefined == /\ \A c \in Reachable(G) : IsAbs(G, c) => Recursive(G, c)        \* "every abstract type is recursive"
               /\ \A c \in Reachable(G) : IsAbs(G, c) \/ \A i \in DOMAIN Fields(G, c) : NodeFormsOK(Fields(G, c)[i].f)

\* diagnosis of an unreachable full program: does it use, above the frontier, a production that is not
\* itself recursive (FullDecider prefers productions that are recursive THEMSELVES, although a
\* non-recursive production over a recursive type can also be continued to the maximum depth)?
RECURSIVE UsesNonRecursiveInternal(_)
UsesNonRecursiveInternal(t) ==
    \/ (t.k = "node" /\ ~Recursive(G, t.ty) /\ \E i \in DOMAIN t.kids : HasNode(t.kids[i]))
    \/ \E i \in DOMAIN t.kids : UsesNonRecursiveInternal(t.kids[i])

Impl(ev) == RangeOf(ev.programs)
Target(ev) == Lang(G, StartForm(G), ev.d)

C04Clause(ev) ==
    IF ev.e # "impl_set" THEN "ok"
    ELSE IF ev.errors # <<>> THEN "C04:creation-error"
    \* an INCOMPLETE set (the decision tree exceeded the driver's budget) can only show that something invalid is reachable
    ELSE IF ev.decider = "grow" THEN
         (IF Impl(ev) \ Target(ev) # {} THEN "C04:invalid-program-reachable"
          ELSE IF ev.complete /\ Target(ev) \ Impl(ev) # {} THEN "C04:valid-program-unreachable" ELSE "ok")
    ELSE IF ev.decider = "pigrow" THEN (IF Impl(ev) \subseteq Target(ev) THEN "ok" ELSE "C04:pigrow-leaves-language")
    ELSE IF ev.decider = "full" THEN
         (IF ~FullDefined THEN "ok"
          ELSE IF Impl(ev) \ FullLang(ev.d) # {} THEN "C04:full-not-full"
          ELSE IF ev.complete /\ FullLang(ev.d) \ Impl(ev) # {} THEN "C04:full-program-unreachable" ELSE "ok")
    ELSE "ok"

C04Attrs(ev) ==
    IF ev.e # "impl_set" THEN <<>>
    ELSE IF ev.errors # <<>> THEN <<ev.decider, ev.errors[1]>>
    ELSE IF ev.decider = "grow" /\ Impl(ev) \subseteq Target(ev) THEN
        <<ev.decider, IF \A t \in Target(ev) \ Impl(ev) : HasEmptyList(t)
                      THEN "every-missing-program-contains-an-empty-list" ELSE "other">>
    ELSE IF ev.decider = "full" /\ FullDefined /\ Impl(ev) \subseteq FullLang(ev.d) THEN
        <<ev.decider, IF \A t \in FullLang(ev.d) \ Impl(ev) : UsesNonRecursiveInternal(t)
                      THEN "every-missing-program-has-a-non-recursive-production-above-the-frontier" ELSE "other">>
    ELSE <<ev.decider>>

\* C10 (E): the creatable set is the same before and after a failing workload on the same Grammar object
C10Clause(prev, ev) ==
    IF ev.e = "impl_set" /\ ev.phase = "after" /\ prev # Impl(ev) THEN "C10:creatable-set-changed" ELSE "ok"

Clause(s, ev) == IF Prop = "C04" THEN C04Clause(ev) ELSE C10Clause(s, ev)
Attrs(s, ev)  == IF Prop = "C04" THEN C04Attrs(ev) ELSE <<ev.decider>>
Eff(s, ev)    == IF ev.e = "impl_set" /\ ev.phase = "before" THEN Impl(ev) ELSE s

TInit   == tid \in 1..NTraces /\ InitWith({})
TNext   == Step(Clause(st, Ev), Attrs(st, Ev), Eff(st, Ev))
TSpec   == TInit /\ [][TNext]_tvars
Collect == CollectWith("ok")
=============================================================================
