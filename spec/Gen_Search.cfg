SPECIFICATION Spec
CONSTANT L1 = 5
CONSTANT L2 = 4
