------------------------------ MODULE TraceKit ------------------------------
(***************************************************************************)
(* Batched, total-verdict trace validation (DESIGN 3.3 (T)).               *)
(*                                                                         *)
(* A batch file (IOEnv.BATCH) holds many traces recorded from the real     *)
(* code.  Init picks one trace; every step consumes one event, evaluates   *)
(* the property clauses on (abstract state, event) and advances the        *)
(* abstract state with the SAME Effect operator the model uses.  A step    *)
(* never becomes disabled: a violated clause is recorded by name together  *)
(* with its discriminating attributes (the finding signature), so the rest *)
(* of the trace is still checked.  Verdicts are accumulated in TLC         *)
(* registers and written as JSON (IOEnv.VERDICTS) by the POSTCONDITION.    *)
(*                                                                         *)
(* A trace module EXTENDS this one and defines                             *)
(*    TInit == InitWith(<initial abstract state for Cfg>)                  *)
(*    TNext == Step(<clause>, <attrs>, <next abstract state>)              *)
(*    Collect == CollectWith(<final clause>)                               *)
(* where <clause> is "ok" or the name of the violated clause.              *)
(***************************************************************************)
EXTENDS Naturals, Sequences, FiniteSets, TLC, TLCExt, Json, IOUtils, SequencesExt

Batch  == JsonDeserialize(IOEnv.BATCH)
Traces == Batch.traces
NTraces == Len(Traces)

VARIABLES tid, l, st, bad
tvars == <<tid, l, st, bad>>

T       == Traces[tid]
Cfg     == T.cfg
NEvents == Len(T.events)
Ev      == T.events[l]

InitWith(s0) == /\ l = 1 /\ st = s0 /\ bad = <<>>

Step(c, a, newst) ==
    /\ l <= NEvents
    /\ bad' = IF c = "ok" THEN bad ELSE Append(bad, [l |-> l, c |-> c, a |-> a])
    /\ st' = newst
    /\ l' = l + 1
    /\ UNCHANGED tid

\* evaluated on every state (CONSTRAINT): at the end of a trace, file its verdict
CollectWith(f) ==
    (l = NEvents + 1) =>
        LET all == IF f = "ok" THEN bad ELSE Append(bad, [l |-> l, c |-> f, a |-> <<>>])
        IN  IF all = <<>> THEN TLCSet(1, TLCGet(1) + 1)
            ELSE TLCSet(2, TLCGet(2) \cup {[tid |-> T.id, bad |-> all]})

ASSUME TLCSet(1, 0) /\ TLCSet(2, {})

WriteVerdicts ==
    JsonSerialize(IOEnv.VERDICTS,
                  [accepted |-> TLCGet(1), rejected |-> SetToSeq(TLCGet(2)), n |-> NTraces])
=============================================================================
