SPECIFICATION Spec
CONSTANT Split = "ascoded"
CONSTANT Sizes = {2, 3, 5, 8}
CONSTANT Weights = {0, 1, 2}
CONSTANT Gens = 2
INVARIANT PopSizeInvariant
CHECK_DEADLOCK FALSE
