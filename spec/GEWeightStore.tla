--------------------------- MODULE GEWeightStore ---------------------------
(***************************************************************************)
(* Where production weights LIVE (property C19, "histories").              *)
(*                                                                         *)
(* extract_grammar normalises the weights of the productions of a rule and *)
(* writes the result back onto the user's classes (__gengy__["weight"]).   *)
(* The classes outlive the Grammar object and are shared by every grammar  *)
(* extracted from them, so the state that matters is the state of the      *)
(* classes:                                                                *)
(*   decl[c]    what the user declared last (ghost: the truth the property *)
(*              speaks about)                                              *)
(*   stored[c]  __gengy__["weight"]                                        *)
(*   kept[c]    __gengy__["declared_weight"]   (None until an extraction)  *)
(*   norm[c]    __gengy__["normalised_weight"] (None until an extraction)  *)
(*   view       the weights of the grammar extracted last, with the        *)
(*              declaration they have to be proportional to                *)
(* Actions: Extract(S) - a grammar over the productions S of one rule -    *)
(* and Redeclare(c, w) - the @weight decorator applied again.              *)
(* Basis = "declared" is update_weights(0, ..) as repaired (normalise from *)
(* the kept declaration); Basis = "stored" is the code before the repair   *)
(* (normalise from whatever is on the classes) and must violate RatioKept. *)
(* Weights are exact rationals <<numerator, denominator>>.                 *)
(***************************************************************************)
EXTENDS Naturals, FiniteSets, Sequences, TLC

CONSTANTS Classes, Raw, Basis, MaxSteps

VARIABLES decl, stored, kept, norm, view
vars == <<decl, stored, kept, norm, view>>

None == <<0, 0>>

RECURSIVE GCD(_, _)
GCD(a, b) == IF b = 0 THEN a ELSE GCD(b, a % b)
Q(n, d)   == LET g == GCD(n, d) IN IF g = 0 THEN <<0, 1>> ELSE <<n \div g, d \div g>>
Add(x, y) == Q(x[1] * y[2] + y[1] * x[2], x[2] * y[2])
Div(x, y) == Q(x[1] * y[2], x[2] * y[1])
Mul(x, y) == Q(x[1] * y[1], x[2] * y[2])
One == <<1, 1>>

RECURSIVE Sum(_, _)
Sum(f, S) == IF S = {} THEN <<0, 1>> ELSE LET c == CHOOSE c \in S : TRUE IN Add(f[c], Sum(f, S \ {c}))

\* what an extraction starts from
Base(c) == IF Basis = "declared" /\ kept[c] # None /\ norm[c] = stored[c] THEN kept[c] ELSE stored[c]

Init == /\ decl \in [Classes -> Raw]
        /\ stored = [c \in Classes |-> <<decl[c], 1>>]
        /\ kept = [c \in Classes |-> None] /\ norm = [c \in Classes |-> None]
        /\ view = [S |-> {}, w |-> <<>>, d |-> <<>>]

Extract(S) ==
    LET base  == [c \in S |-> Base(c)]
        total == Sum(base, S)
        \* totals that already are one are left alone (same values)
        new   == [c \in S |-> IF total = One \/ total[1] = 0 THEN base[c] ELSE Div(base[c], total)]
    IN /\ stored' = [c \in Classes |-> IF c \in S THEN new[c] ELSE stored[c]]
       /\ kept'   = [c \in Classes |-> IF c \in S THEN base[c] ELSE kept[c]]
       /\ norm'   = [c \in Classes |-> IF c \in S THEN new[c] ELSE norm[c]]
       /\ view'   = [S |-> S, w |-> new, d |-> [c \in S |-> decl[c]]]
       /\ UNCHANGED decl

Redeclare(c, w) == /\ decl' = [decl EXCEPT ![c] = w]
                   /\ stored' = [stored EXCEPT ![c] = <<w, 1>>]
                   /\ kept' = [kept EXCEPT ![c] = None]
                   /\ UNCHANGED <<norm, view>>

Next == \/ \E S \in SUBSET Classes \ {{}} : Extract(S)
        \/ \E c \in Classes, w \in Raw : Redeclare(c, w)
Spec == Init /\ [][Next]_vars

Bounded == TLCGet("level") <= MaxSteps
-----------------------------------------------------------------------------
\* C19: the weights of the grammar extracted last sum to one ...
SumOne == view.S # {} => (Sum(view.w, view.S) = One \/ \A c \in view.S : view.d[c] = 0)
\* ... and keep the ratios declared when it was extracted (w[p] * d[q] = w[q] * d[p])
RatioKept == \A p, q \in view.S : Mul(view.w[p], <<view.d[q], 1>>) = Mul(view.w[q], <<view.d[p], 1>>)
\* extracting the same grammar again changes nothing
Idempotent == [][\A S \in SUBSET Classes \ {{}} : (Extract(S) /\ view.S = S /\ view.d = [c \in S |-> decl[c]]) => view'.w = view.w]_vars
=============================================================================
