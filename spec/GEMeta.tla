-------------------------------- MODULE GEMeta --------------------------------
(***************************************************************************)
(* Per-node size and depth metadata (gengy_nodes, gengy_distance_to_term,  *)
(* gengy_weighted_nodes, gengy_types_this_way) defined INDEPENDENTLY on    *)
(* the structure of a term (property C11).  Convention (fixed by the       *)
(* documentation and by tests/representations/tree_based/relabel_test.py): *)
(* a terminal - a field-less node or a base value - has distance 0 and     *)
(* counts 0; lists are transparent; tuples are opaque.                     *)
(* (geneticengine/representations/tree/utils.py: relabel_nodes)            *)
(***************************************************************************)
EXTENDS GEProgram

Internal(t) == t.k = "node" /\ Len(t.kids) > 0

RECURSIVE NodesOf(_)
NodesOf(t) == CASE Internal(t)   -> 1 + SeqSum([i \in DOMAIN t.kids |-> NodesOf(t.kids[i])])
                [] t.k = "list"  -> SeqSum([i \in DOMAIN t.kids |-> NodesOf(t.kids[i])])
                [] OTHER -> 0

RECURSIVE DistOf(_)
Up(c) == DistOf(c) + (IF c.k = "list" THEN 0 ELSE 1)
DistOf(t) == CASE Internal(t)  -> SMax({1} \cup {Up(t.kids[i]) : i \in DOMAIN t.kids})
               [] t.k = "list" -> SMax({0} \cup {Up(t.kids[i]) : i \in DOMAIN t.kids})
               [] OTHER -> 0

RECURSIVE WeightedOf(_)
WeightedOf(t) == CASE Internal(t)  -> SeqSum([i \in DOMAIN t.kids |-> WeightedOf(t.kids[i])]) + DistOf(t)
                   [] t.k = "list" -> SeqSum([i \in DOMAIN t.kids |-> WeightedOf(t.kids[i])])
                   [] OTHER -> 0

\* classes of the grammar nodes in t
RECURSIVE NodeClasses(_)
NodeClasses(t) == (IF t.k = "node" THEN {t.ty} ELSE {})
                  \cup UNION {NodeClasses(t.kids[i]) : i \in DOMAIN t.kids}

\* paths (as the projection writes them: "r", "r.0", "r.0.2", ...) of the nodes of class c in t;
\* tuples are not descended into by the labelling
RECURSIVE PathsOf(_, _, _)
PathsOf(t, path, c) ==
    (IF t.k = "node" /\ t.ty = c THEN {path} ELSE {})
    \cup (IF t.k = "tuple" THEN {}
          ELSE UNION {PathsOf(t.kids[i], path \o "." \o ToString(i - 1), c) : i \in DOMAIN t.kids})
RECURSIVE LabelledClasses(_)
LabelledClasses(t) == (IF t.k = "node" THEN {t.ty} ELSE {})
                      \cup (IF t.k = "tuple" THEN {} ELSE UNION {LabelledClasses(t.kids[i]) : i \in DOMAIN t.kids})

\* the index recorded on a node, as a set of <<class, set of paths>>
RecordedIndex(m) == {<<m.ttw[i].c, RangeOf(m.ttw[i].ps)>> : i \in DOMAIN m.ttw}
ExpectedIndex(t, path) == {<<c, PathsOf(t, path, c)>> : c \in LabelledClasses(t)}

\* first mismatch between recorded and structural metadata, depth first:
\* <<what, node kind>> or <<>>; every grammar node and every list must carry labels
RECURSIVE MetaBadAt(_, _)
MetaBadAt(t, path) ==
    LET own ==
          IF t.k \in {"node", "list"} THEN
             IF ~t.m.has THEN <<"missing", t.k>>
             ELSE IF t.m.nodes # NodesOf(t) THEN <<"nodes", t.k>>
             ELSE IF t.m.dist # DistOf(t) THEN <<"distance", t.k>>
             ELSE IF t.m.wn # WeightedOf(t) THEN <<"weighted", t.k>>
             ELSE IF RecordedIndex(t.m) # ExpectedIndex(t, path) THEN <<"types-this-way", t.k>>
             ELSE <<>>
          ELSE <<>>
    IN IF own # <<>> THEN own
       ELSE IF t.k = "tuple" THEN <<>>
       ELSE LET bad == {i \in DOMAIN t.kids : MetaBadAt(t.kids[i], path \o "." \o ToString(i - 1)) # <<>>}
            IN IF bad = {} THEN <<>> ELSE MetaBadAt(t.kids[SMin(bad)], path \o "." \o ToString(SMin(bad) - 1))

MetaBad(t, G) == MetaBadAt(t, "r")

-----------------------------------------------------------------------------
(* Expansion-depthing mode (Grammar(expansion_depthing=True)): every base   *)
(* value and field-less node counts 1, every abstract layer between the     *)
(* declared field type and the concrete class of the value adds one, and so *)
(* does every list.  Defined for fields that are (refined) symbols, (refined) *)
(* base values, unions, tuples (opaque) and lists.                          *)
RECURSIVE LevelsUp(_, _, _)
LevelsUp(G, c, a) == IF c = a \/ ~Known(G, c) \/ Parent(G, c) = "" THEN 0 ELSE 1 + LevelsUp(G, Parent(G, c), a)
\* a refined non-terminal field (Annotated[Expr, refinement]) is still declared with the type Expr
Bare(f) == IF f.k = "ann" /\ Len(f.es) = 1 THEN f.es[1] ELSE f
Adj(G, f, c) == IF c.k = "list" THEN 1
                ELSE IF Bare(f).k = "sym" /\ Known(G, Bare(f).s) /\ IsAbs(G, Bare(f).s) /\ c.k = "node" THEN LevelsUp(G, c.ty, Bare(f).s)
                ELSE 0
NoForm == [k |-> "none", s |-> "", es |-> <<>>, mh |-> [k |-> "none"]]
KidForm(G, t, i) == IF t.k = "node" /\ Known(G, t.ty) /\ i \in DOMAIN Fields(G, t.ty) THEN Fields(G, t.ty)[i].f ELSE NoForm

RECURSIVE NodesX(_, _)
NodesX(G, t) == CASE Internal(t)  -> 1 + SeqSum([i \in DOMAIN t.kids |-> Adj(G, KidForm(G, t, i), t.kids[i]) + NodesX(G, t.kids[i])])
                  [] t.k = "list" -> SeqSum([i \in DOMAIN t.kids |-> Adj(G, NoForm, t.kids[i]) + NodesX(G, t.kids[i])])
                  [] OTHER -> 1
RECURSIVE DistX(_, _)
UpX(G, f, c) == DistX(G, c) + Adj(G, f, c) + (IF c.k = "list" THEN 0 ELSE 1)
DistX(G, t) == CASE Internal(t)  -> SMax({1} \cup {UpX(G, KidForm(G, t, i), t.kids[i]) : i \in DOMAIN t.kids})
                 [] t.k = "list" -> SMax({0} \cup {UpX(G, NoForm, t.kids[i]) : i \in DOMAIN t.kids})
                 [] OTHER -> 1
RECURSIVE WeightedX(_, _)
WeightedX(G, t) == CASE Internal(t)  -> SeqSum([i \in DOMAIN t.kids |-> WeightedX(G, t.kids[i])]) + DistX(G, t)
                     [] t.k = "list" -> SeqSum([i \in DOMAIN t.kids |-> WeightedX(G, t.kids[i])])
                     [] OTHER -> 1

RECURSIVE MetaBadXAt(_, _, _)
MetaBadXAt(G, t, path) ==
    LET own ==
          IF t.k \in {"node", "list"} THEN
             IF ~t.m.has THEN <<"missing", t.k>>
             ELSE IF t.m.nodes # NodesX(G, t) THEN <<"nodes", t.k>>
             ELSE IF t.m.dist # DistX(G, t) THEN <<"distance", t.k>>
             ELSE IF t.m.wn # WeightedX(G, t) THEN <<"weighted", t.k>>
             ELSE IF RecordedIndex(t.m) # ExpectedIndex(t, path) THEN <<"types-this-way", t.k>>
             ELSE <<>>
          ELSE <<>>
    IN IF own # <<>> THEN own
       ELSE IF t.k = "tuple" THEN <<>>
       ELSE LET wrong == {i \in DOMAIN t.kids : MetaBadXAt(G, t.kids[i], path \o "." \o ToString(i - 1)) # <<>>}
            IN IF wrong = {} THEN <<>> ELSE MetaBadXAt(G, t.kids[SMin(wrong)], path \o "." \o ToString(SMin(wrong) - 1))
MetaBadX(t, G) == MetaBadXAt(G, t, "r")
=============================================================================
