SPECIFICATION Spec
CONSTANT Configs <- QuickConfigs
CONSTANT MaxInd = 6
INVARIANT TrackerBest
INVARIANT FlagExact
INVARIANT ReturnsBest
INVARIANT HonestCounting
INVARIANT StopRule
PROPERTY AfterDoneNothing
CHECK_DEADLOCK FALSE
