------------------------------ MODULE Gen_Steps ------------------------------
(* (R) TLC writes the step compositions that are instantiated with the real combinators:
   the complete depth-one space of MC_Steps plus deeper nestings built from random subsets. *)
EXTENDS MC_Steps, Json, IOUtils, Randomization

CONSTANTS NDeep
Pick(S, n) == RandomSubset(IF Cardinality(S) < n THEN Cardinality(S) ELSE n, S)
D1s == Pick(Depth1, 24)
Depth2 == {Comb("seq", <<a, b>>, <<>>) : a \in D1s, b \in Pick(Leaves, 3)}
          \cup {Comb(kd, <<a, b>>, w) : kd \in {"par", "xpar"}, a \in D1s, b \in Pick(Depth1, 6), w \in Pick(WVecs(2), 3)}
D2s == Pick(Depth2, 20)
Depth3 == {Comb(kd, <<a, b, c>>, w) : kd \in {"par", "xpar"}, a \in D2s, b \in Pick(Leaves, 2), c \in Pick(Depth1, 4), w \in Pick(WVecs(3), 3)}
          \cup {Comb("seq", <<a, b>>, <<>>) : a \in D2s, b \in Pick(Depth1, 6)}
ASSUME JsonSerialize(IOEnv.GEN_OUT, [d1 |-> Depth1, deep |-> Pick(Depth2, NDeep) \cup Pick(Depth3, NDeep)])
=============================================================================
