------------------------------ MODULE Trace_C08 ------------------------------
(* Trace validation for C08: the evaluation sequences of several runs of ONE configuration (same seed;
   in-process repetitions and separate processes with different hash seeds, allocation padding and import
   order) merged into one trace.  Events:
     eval   [run, i, digest, fit]    the i-th program handed to the fitness function in that run
     result [run, digest, fit]       best program / fitness returned
     runfail [run, exc]
   The abstract state is the canonical sequence (GEDeterminism's log of the first run seen). *)
EXTENDS GEBase, TraceKit

Put(f, k, v) == [j \in DOMAIN f \cup {k} |-> IF j = k THEN v ELSE f[j]]
S0 == [canon |-> <<>>, hasres |-> FALSE, res |-> <<0, 0>>, len |-> <<>>]

Clause(s, ev) ==
    CASE ev.e = "eval" ->
           IF ev.i \in DOMAIN s.canon /\ s.canon[ev.i] # <<ev.digest, ev.fit>> THEN "C08:sequence-diverges" ELSE "ok"
      [] ev.e = "result" ->
           IF s.hasres /\ s.res # <<ev.digest, ev.fit>> THEN "C08:result-diverges"
           ELSE IF s.hasres /\ ev.n # s.res_n THEN "C08:sequence-length-differs" ELSE "ok"
      [] ev.e = "runfail" -> "C08:run-raises"
      [] OTHER -> "ok"
Attrs(s, ev) == IF ev.e = "runfail" THEN <<Cfg.rep, Cfg.alg, ev.where, ev.exc>> ELSE <<Cfg.rep, Cfg.alg, ev.where>>
Eff(s, ev) ==
    CASE ev.e = "eval" -> IF ev.i \in DOMAIN s.canon THEN s ELSE [s EXCEPT !.canon = Put(s.canon, ev.i, <<ev.digest, ev.fit>>)]
      [] ev.e = "result" -> IF s.hasres THEN s ELSE [hasres |-> TRUE, res |-> <<ev.digest, ev.fit>>, res_n |-> ev.n, canon |-> s.canon, len |-> s.len]
      [] OTHER -> s

TInit   == tid \in 1..NTraces /\ InitWith([canon |-> <<>>, hasres |-> FALSE, res |-> <<0, 0>>, res_n |-> 0, len |-> <<>>])
TNext   == Step(Clause(st, Ev), Attrs(st, Ev), Eff(st, Ev))
TSpec   == TInit /\ [][TNext]_tvars
Collect == CollectWith("ok")
=============================================================================
