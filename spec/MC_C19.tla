------------------------------- MODULE MC_C19 -------------------------------
(***************************************************************************)
(* Model-level check for C19: per-non-terminal weight normalisation        *)
(* (Grammar.update_weights) as a step function over the rules, with        *)
(* rationals <<num, den>>.  TLC enumerates every weight assignment over    *)
(* {unweighted, 0, 1, 2, 6} for two nested non-terminals                   *)
(*     A0 -> P1 | P2 | A1        A1 -> Q1 | Q2                             *)
(* and checks: non-negative, sums to one per non-terminal, declared ratios *)
(* kept (unweighted = 1), and normalising again changes nothing.           *)
(* ResetPerRule = FALSE transcribes a normalisation whose running total is *)
(* not reset between rules (a sensitivity guard: TLC must reject it).      *)
(***************************************************************************)
EXTENDS GEBase

CONSTANT ResetPerRule
Prods == <<"P1", "P2", "A1", "Q1", "Q2">>
Rules == <<<<"P1", "P2", "A1">>, <<"Q1", "Q2">>>>           \* in registration order
Choices == {-1, 0, 1, 2, 6}                                  \* -1 = no @weight decorator

VARIABLE decl
Raw(d, p) == IF d[p] = -1 THEN 1 ELSE d[p]
RuleSum(d, r) == SeqSum([i \in DOMAIN r |-> Raw(d, r[i])])
Init == decl \in {d \in [RangeOf(Prods) -> Choices] : \A k \in DOMAIN Rules : RuleSum(d, Rules[k]) > 0}
Next == UNCHANGED decl
Spec == Init /\ [][Next]_decl

\* normalised weight of p as <<num, den>>: den is the total of p's rule (plus, in the guard variant,
\* the totals of all earlier rules)
RuleOf(p) == CHOOSE k \in DOMAIN Rules : \E i \in DOMAIN Rules[k] : Rules[k][i] = p
Den(d, k) == IF ResetPerRule THEN RuleSum(d, Rules[k])
             ELSE SeqSum([j \in 1..k |-> RuleSum(d, Rules[j])])
Norm(d, p) == <<Raw(d, p), Den(d, RuleOf(p))>>

NonNegative == \A p \in RangeOf(Prods) : Norm(decl, p)[1] >= 0 /\ Norm(decl, p)[2] > 0
SumToOne == \A k \in DOMAIN Rules :
               SeqSum([i \in DOMAIN Rules[k] |-> Norm(decl, Rules[k][i])[1]]) = Norm(decl, Rules[k][1])[2]
RatiosKept == \A k \in DOMAIN Rules : \A i, j \in DOMAIN Rules[k] :
                 Norm(decl, Rules[k][i])[1] * Raw(decl, Rules[k][j]) = Norm(decl, Rules[k][j])[1] * Raw(decl, Rules[k][i])
\* second extraction: the classes now carry the normalised weights n/den; within a rule all share den, so
\* normalising again gives (n/den) / (sum n / den) = n / sum n
Again(d, p) == LET k == RuleOf(p)
                   s == SeqSum([i \in DOMAIN Rules[k] |-> Norm(d, Rules[k][i])[1]])
               IN <<Norm(d, p)[1], s>>
Idempotent == \A p \in RangeOf(Prods) :
                 Again(decl, p)[1] * Norm(decl, p)[2] = Norm(decl, p)[1] * Again(decl, p)[2] \/ ~SumToOne
=============================================================================
