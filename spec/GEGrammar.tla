------------------------------ MODULE GEGrammar ------------------------------
(***************************************************************************)
(* Grammar analysis, computed from the DECLARED class hierarchy            *)
(* (geneticengine/grammar/grammar.py: register_type, preprocess,           *)
(* usable_grammar, update_weights).                                        *)
(*                                                                         *)
(* A declared grammar G is a record                                        *)
(*   [start |-> name, names |-> <<name,...>>,                              *)
(*    classes |-> [name |-> [name, parent, abstract, fields, hasw, w]]]    *)
(* a field is [n |-> name, f |-> form]; a type form is                     *)
(*   [k |-> "base"|"sym"|"list"|"tuple"|"union"|"ann"|"other", s, es, mh]. *)
(* Everything here is a pure operator: the grammar is a value that no      *)
(* action of any module may change (property C10).                         *)
(***************************************************************************)
EXTENDS GEBase

Names(G)     == RangeOf(G.names)
IsAbs(G, c)  == G.classes[c].abstract
Parent(G, c) == G.classes[c].parent
Fields(G, c) == G.classes[c].fields
Known(G, c)  == c \in Names(G)

\* productions of an abstract type: its DIRECT subtypes among the supplied classes
Prods(G, a) == {c \in Names(G) : Parent(G, c) = a}

RECURSIVE IsBelow(_, _, _)
IsBelow(G, c, a) == \/ c = a
                    \/ (Known(G, c) /\ Parent(G, c) # "" /\ IsBelow(G, Parent(G, c), a))

\* concrete classes derivable from symbol s (through any number of abstract layers)
Concretes(G, s) == {c \in Names(G) : ~IsAbs(G, c) /\ IsBelow(G, c, s)}

-----------------------------------------------------------------------------
(* Symbols mentioned by a form / a class.                                   *)
RECURSIVE FormSyms(_)
FormSyms(f) == IF f.k = "sym" THEN {f.s}
               ELSE IF f.k \in {"list", "tuple", "union", "ann"}
                    THEN UNION {FormSyms(f.es[i]) : i \in DOMAIN f.es}
                    ELSE {}

\* one derivation step: an abstract type may become any production, a concrete class
\* contains whatever its field types mention
Mentions(G, c) == IF ~Known(G, c) THEN {}
                  ELSE IF IsAbs(G, c) THEN Prods(G, c)
                  ELSE UNION {FormSyms(Fields(G, c)[i].f) : i \in DOMAIN Fields(G, c)}

RECURSIVE ClosureFrom(_, _, _)
ClosureFrom(G, S, n) ==      \* symbols reachable from S in at most n steps (n >= |Names| suffices)
    IF n = 0 THEN S
    ELSE LET S2 == S \cup UNION {Mentions(G, c) : c \in S}
         IN IF S2 = S THEN S ELSE ClosureFrom(G, S2, n - 1)

ReachableFrom(G, c) == ClosureFrom(G, Mentions(G, c), Cardinality(Names(G)) + 1)   \* c =>+ x
Recursive(G, c)     == c \in ReachableFrom(G, c)
RecursiveSet(G)     == {c \in Names(G) : Recursive(G, c)}
Reachable(G)        == ClosureFrom(G, {G.start}, Cardinality(Names(G)) + 1)        \* start =>* x

-----------------------------------------------------------------------------
(* Exact minimum depth: least fixpoint.  Depth = longest chain of nested    *)
(* grammar nodes; lists, tuples, unions and base values are transparent.    *)

(* Dev is a set of named deviations; {} is the exact analysis.  The deviations transcribe what  *)
(* the pinned implementation does differently, so that a mismatch can be DIAGNOSED: the trace    *)
(* specification reports the smallest deviation set that explains the implementation's numbers. *)
(*   "bool-costs-1"          a bool field is charged one level (bool is not among int/float/str) *)
(*   "union-max"             a Union costs the deepest alternative instead of the shallowest     *)
(*   "list-assumed-nonempty" a list that may be empty costs one element                          *)
RECURSIVE FormMinV(_, _, _)
FormMinV(f, d, Dev) ==
    CASE f.k = "base"  -> IF f.s = "bool" /\ "bool-costs-1" \in Dev THEN 1 ELSE 0
      [] f.k = "sym"   -> IF f.s \in DOMAIN d THEN d[f.s] ELSE INF
      [] f.k = "list"  -> IF "list-assumed-nonempty" \in Dev THEN FormMinV(f.es[1], d, Dev)
                          ELSE 0                                   \* a plain list may be empty
      [] f.k = "tuple" -> SMax({FormMinV(f.es[i], d, Dev) : i \in DOMAIN f.es} \cup {0})
      [] f.k = "union" -> IF "union-max" \in Dev
                          THEN SMax({FormMinV(f.es[i], d, Dev) : i \in DOMAIN f.es} \cup {0})
                          ELSE SMin({FormMinV(f.es[i], d, Dev) : i \in DOMAIN f.es} \cup {INF})
      [] f.k = "ann"   -> IF f.mh.k = "ListSize"
                          THEN (IF f.mh.lo = 0 /\ "list-assumed-nonempty" \notin Dev THEN 0
                                ELSE FormMinV(f.es[1].es[1], d, Dev))
                          ELSE FormMinV(f.es[1], d, Dev)
      [] OTHER -> INF
FormMin(f, d) == FormMinV(f, d, {})

StepDV(G, d, Dev) ==
    [c \in Names(G) |->
        IF IsAbs(G, c) THEN SMin({d[p] : p \in Prods(G, c)} \cup {INF})
        ELSE LET m == SMax({FormMinV(Fields(G, c)[i].f, d, Dev) : i \in DOMAIN Fields(G, c)} \cup {0})
             IN IF m >= INF THEN INF ELSE 1 + m]

RECURSIVE FixDV(_, _, _, _)
FixDV(G, d, n, Dev) == IF n = 0 THEN d
                       ELSE LET d2 == StepDV(G, d, Dev) IN IF d2 = d THEN d ELSE FixDV(G, d2, n - 1, Dev)

MinDepthV(G, Dev) == FixDV(G, [c \in Names(G) |-> INF], 4 * Cardinality(Names(G)) + 4, Dev)
MinDepth(G) == MinDepthV(G, {})
Deviations == {"bool-costs-1", "union-max", "list-assumed-nonempty"}

\* expansion-depthing mode: every expansion costs one level - an abstract layer, a base value, and each list,
\* union or tuple wrapper (a refinement annotation is not an expansion).  A list that may be empty costs its own
\* level only; the named deviations are those of the default mode.
Plus1(m) == IF m >= INF THEN INF ELSE 1 + m
RECURSIVE FormMinXV(_, _, _)
FormMinXV(f, d, Dev) ==
    CASE f.k = "base"  -> 1
      [] f.k = "sym"   -> IF f.s \in DOMAIN d THEN d[f.s] ELSE INF
      [] f.k = "list"  -> IF "list-assumed-nonempty" \in Dev THEN Plus1(FormMinXV(f.es[1], d, Dev)) ELSE 1
      [] f.k = "tuple" -> Plus1(SMax({FormMinXV(f.es[i], d, Dev) : i \in DOMAIN f.es} \cup {0}))
      [] f.k = "union" -> IF "union-max" \in Dev
                          THEN Plus1(SMax({FormMinXV(f.es[i], d, Dev) : i \in DOMAIN f.es} \cup {0}))
                          ELSE Plus1(SMin({FormMinXV(f.es[i], d, Dev) : i \in DOMAIN f.es} \cup {INF}))
      [] f.k = "ann"   -> IF f.mh.k = "ListSize"
                          THEN (IF f.mh.lo = 0 /\ "list-assumed-nonempty" \notin Dev THEN 1
                                ELSE Plus1(FormMinXV(f.es[1].es[1], d, Dev)))
                          ELSE FormMinXV(f.es[1], d, Dev)
      [] OTHER -> INF
FormMinX(f, d) == FormMinXV(f, d, {})
StepDXV(G, d, Dev) ==
    [c \in Names(G) |->
        IF IsAbs(G, c) THEN Plus1(SMin({d[p] : p \in Prods(G, c)} \cup {INF}))
        ELSE Plus1(SMax({FormMinXV(Fields(G, c)[i].f, d, Dev) : i \in DOMAIN Fields(G, c)} \cup {0}))]
RECURSIVE FixDXV(_, _, _, _)
FixDXV(G, d, n, Dev) == IF n = 0 THEN d ELSE LET d2 == StepDXV(G, d, Dev) IN IF d2 = d THEN d ELSE FixDXV(G, d2, n - 1, Dev)
MinDepthXV(G, Dev) == FixDXV(G, [c \in Names(G) |-> INF], 4 * Cardinality(Names(G)) + 4, Dev)
MinDepthX(G) == MinDepthXV(G, {})

RECURSIVE SimpleForm(_)
SimpleForm(f) == \/ f.k \in {"base", "sym"}
                 \/ (f.k = "ann" /\ f.mh.k \notin {"ListSize", "Dependent"} /\ SimpleForm(f.es[1]))
SimpleGrammar(G) == \A c \in Names(G) : \A i \in DOMAIN Fields(G, c) : SimpleForm(Fields(G, c)[i].f)

\* which form kinds occur on a shallowest derivation of c (diagnosis signature for C05 findings)
RECURSIVE FormKinds(_)
FormKinds(f) == {IF f.k = "ann" THEN "ann:" \o f.mh.k ELSE IF f.k = "base" THEN "base:" \o f.s ELSE f.k}
                \cup (IF f.k \in {"list", "tuple", "union", "ann"}
                      THEN UNION {FormKinds(f.es[i]) : i \in DOMAIN f.es} ELSE {})
ClassKinds(G, c) == IF IsAbs(G, c) THEN {}
                    ELSE UNION {FormKinds(Fields(G, c)[i].f) : i \in DOMAIN Fields(G, c)}

-----------------------------------------------------------------------------
(* Production weights (decorators.weight, Grammar.update_weights):          *)
(* unweighted productions count 1; per non-terminal the weights are divided *)
(* by their sum.  Rationals are <<num, den>> with integer weights as input. *)
RawW(G, c) == IF G.classes[c].hasw THEN G.classes[c].w ELSE 10000     \* weights are scaled by 10^4
SumW(G, a) == LET ps == Prods(G, a)
                  RECURSIVE S(_)
                  S(Q) == IF Q = {} THEN 0 ELSE LET q == CHOOSE q \in Q : TRUE IN RawW(G, q) + S(Q \ {q})
              IN S(ps)
NormW(G, a, p) == <<RawW(G, p), SumW(G, a)>>
=============================================================================
