SPECIFICATION FairSpec
CONSTANT Configs <- LiveConfigs
CONSTANT MaxInd = 9
PROPERTY Terminates
CHECK_DEADLOCK FALSE
