SPECIFICATION Spec
CONSTANT Dynamic = TRUE
CONSTANT Purity = "impure"
INVARIANT MapStable
INVARIANT MapDoesNotDraw
PROPERTY AppendOnly
CHECK_DEADLOCK FALSE
