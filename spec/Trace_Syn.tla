------------------------------- MODULE Trace_Syn -------------------------------
(***************************************************************************)
(* Trace validation of program synthesis: every program any creation path  *)
(* of the library produced is judged by the predicates of GEProgram,       *)
(* evaluated against the DECLARED grammar Cfg.g:                           *)
(*   C01 well-typed (+ only library errors, no foreign / lazy values)      *)
(*   C02 refinements hold (+ validate accepts what generate produces)      *)
(*   C03 depth <= limit, every limit >= reported minimum usable, smaller   *)
(*       limits rejected up-front                                          *)
(*   C10 the Grammar object is unchanged by any workload                   *)
(*   C11 per-node metadata equals an independent traversal (GEMeta)        *)
(* Events: decider_new, produced, failed, validate, grammar.               *)
(***************************************************************************)
EXTENDS GEMeta, TraceKit

Prop == Batch.meta.prop
G == Cfg.g

Registered(t) == \A c \in NodeClasses(t) : c \in RangeOf(Cfg.impl0.nodes)

C01Clause(ev) ==
    CASE ev.e = "produced" ->
           IF HasForeign(ev.prog) THEN "C01:foreign-value"
           ELSE IF Mismatch(ev.prog, StartForm(G), G) # <<>> THEN "C01:ill-typed"
           ELSE IF ~Registered(ev.prog) THEN "C01:unregistered-production"
           ELSE "ok"
      [] ev.e = "failed" -> IF ~ev.lib THEN "C01:non-library-error" ELSE "ok"
      [] ev.e = "decider_new" -> IF ~ev.ok /\ ~ev.lib THEN "C01:non-library-error" ELSE "ok"
      [] ev.e = "extract_failed" -> "C01:grammar-extraction-failed"
      [] OTHER -> "ok"
C01Attrs(ev) ==
    CASE ev.e = "produced" /\ HasForeign(ev.prog) -> <<ForeignType(ev.prog), ev.rep>>
      [] ev.e = "produced" -> Mismatch(ev.prog, StartForm(G), G) \o <<ev.rep>>
      [] ev.e = "failed" -> <<ev.exc, ev.rep, ev.opc>>
      [] ev.e = "decider_new" -> <<ev.exc, ev.decider, "decider">>
      [] ev.e = "extract_failed" -> <<ev.exc>>
      [] OTHER -> <<>>

C02Clause(ev) ==
    CASE ev.e = "produced" -> IF RefBad(ev.prog, StartForm(G), G, <<>>, "top") # <<>> THEN "C02:refinement" ELSE "ok"
      [] ev.e = "validate" -> IF ev.exc # "" THEN "C02:validator-raises"
                              ELSE IF ~ev.ok THEN "C02:validator-rejects-generated" ELSE "ok"
      [] OTHER -> "ok"
C02Attrs(ev) ==
    \* the stack representation never consults a refinement (it calls the annotated alias): one signature
    \* (for grammars whose refinements are declared as objects; with postponed - string - annotations the stack
    \*  machine does look for a value that satisfies the refinement, and is judged like every other representation)
    CASE ev.e = "produced" /\ ev.rep = "stack" /\ Cfg.annot = "objects" -> <<"refinement-never-consulted", "stack">>
      [] ev.e = "produced" -> RefBad(ev.prog, StartForm(G), G, <<>>, "top") \o <<ev.rep>>
      [] ev.e = "validate" -> <<ev.mh, ev.exc>>
      [] OTHER -> <<>>

\* C03 uses the minimum the implementation REPORTS (its exactness is C05's business)
\* a limit the implementation rejects although it is at least the EXACT minimum depth (GEGrammar!MinDepth):
\* reported as its own clause, diagnosed by the deviation that explains the reported minimum
ExactMin == MinDepth(G)[G.start]
RejectSig(ev) ==
    LET cands == {Dv \in SUBSET Deviations : MinDepthV(G, Dv)[G.start] = ev.mind}
        w(Dv) == (IF "list-assumed-nonempty" \in Dv THEN 1 ELSE 0) + (IF "union-max" \in Dv THEN 2 ELSE 0)
                 + (IF "bool-costs-1" \in Dv THEN 4 ELSE 0)
    IN IF cands = {} THEN "unexplained"
       ELSE LET k == SMin({w(Dv) : Dv \in cands}) IN
            LET Dv == CHOOSE x \in cands : w(x) = k IN
            (IF "list-assumed-nonempty" \in Dv THEN "list-assumed-nonempty;" ELSE "")
            \o (IF "union-max" \in Dv THEN "union-max;" ELSE "") \o (IF "bool-costs-1" \in Dv THEN "bool-costs-1;" ELSE "")

C03Clause(ev) ==
    CASE ev.e = "decider_new" /\ ~ev.ok /\ ev.d < ev.mind /\ ev.d >= ExactMin -> "C03:feasible-depth-rejected"
      [] ev.e = "failed" /\ ev.d < ev.mind /\ ev.d >= ExactMin /\ ev.lib /\ ev.draws = 0 -> "C03:feasible-depth-rejected"
      [] ev.e = "decider_new" ->
           IF ev.d < ev.mind THEN (IF ev.ok THEN "C03:not-rejected-upfront"
                                   ELSE IF ~ev.lib \/ ev.draws > 0 THEN "C03:rejected-midway" ELSE "ok")
           ELSE (IF ~ev.ok THEN "C03:error-at-feasible-depth" ELSE "ok")
      [] ev.e = "produced" ->
           IF ev.d < ev.mind THEN "C03:not-rejected-upfront"
           ELSE IF Depth(ev.prog) > ev.d THEN "C03:depth>max" ELSE "ok"
      [] ev.e = "failed" ->
           IF ev.d < ev.mind THEN (IF ev.lib /\ ev.draws = 0 THEN "ok" ELSE "C03:rejected-midway")
           ELSE "C03:error-at-feasible-depth"
      [] OTHER -> "ok"
Slack(ev) == IF ev.d < ev.mind THEN "d<min" ELSE IF ev.d = ev.mind THEN "d=min" ELSE "d>min"
C03Attrs(ev) ==
    CASE ev.e \in {"decider_new", "failed"} /\ ev.d < ev.mind /\ ev.d >= ExactMin
              /\ (IF ev.e = "decider_new" THEN ~ev.ok ELSE ev.lib /\ ev.draws = 0) -> <<RejectSig(ev)>>
      [] ev.e = "decider_new" -> <<ev.decider, "decider", IF ev.exc = "" THEN "-" ELSE ev.exc, Slack(ev)>>
      [] ev.e = "produced" -> <<ev.decider, ev.rep, ev.op, Slack(ev)>>
      [] ev.e = "failed" -> <<ev.decider, ev.rep, ev.opc, ev.exc, Slack(ev)>>
      [] OTHER -> <<>>

ImplSame(a, b) == a = b
C10Component(a, b) ==
    IF a.alts # b.alts \/ a.altkeys # b.altkeys THEN "productions"
    ELSE IF a.dist # b.dist THEN "minimum-depths"
    ELSE IF a.recursive # b.recursive THEN "recursive-set"
    ELSE IF a.weights # b.weights THEN "weights"
    ELSE IF a.nodes # b.nodes THEN "symbols"
    ELSE IF a.absdist # b.absdist THEN "abstract-distance-table"
    ELSE "other"
C10Clause(ev) ==
    CASE ev.e = "grammar" -> IF ev.impl # Cfg.impl0 THEN "C10:grammar-changed" ELSE "ok"
      [] OTHER -> "ok"
C10Attrs(ev) == IF ev.e = "grammar" THEN <<C10Component(Cfg.impl0, ev.impl)>> ELSE <<>>

\* Cfg.expd: the depth-counting mode the grammar was REQUESTED with (not the flag the Grammar object reports)
MB(ev) == IF Cfg.expd THEN MetaBadX(ev.prog, G) ELSE MetaBad(ev.prog, G)
C11Clause(ev) ==
    IF ev.e = "produced" /\ ev.rep # "stack" THEN (IF MB(ev) = <<>> THEN "ok" ELSE "C11:" \o MB(ev)[1])
    ELSE "ok"
C11Attrs(ev) == IF ev.e = "produced" THEN Tail(MB(ev)) \o <<ev.op, IF Cfg.expd THEN "expansion-mode" ELSE "default-mode">> ELSE <<>>

Clause(ev) == CASE Prop = "C01" -> C01Clause(ev) [] Prop = "C02" -> C02Clause(ev) [] Prop = "C03" -> C03Clause(ev)
                [] Prop = "C10" -> C10Clause(ev) [] Prop = "C11" -> C11Clause(ev) [] OTHER -> "ok"
Attrs(ev)  == CASE Prop = "C01" -> C01Attrs(ev) [] Prop = "C02" -> C02Attrs(ev) [] Prop = "C03" -> C03Attrs(ev)
                [] Prop = "C10" -> C10Attrs(ev) [] Prop = "C11" -> C11Attrs(ev) [] OTHER -> <<>>

TInit   == tid \in 1..NTraces /\ InitWith(0)
TNext   == Step(Clause(Ev), Attrs(Ev), st)
TSpec   == TInit /\ [][TNext]_tvars
Collect == CollectWith("ok")
=============================================================================
