---------------------------- MODULE GEAlgorithms ----------------------------
(***************************************************************************)
(* The search loops of RandomSearch, OnePlusOne, HC and GeneticProgramming *)
(* (geneticengine/algorithms/*.py) composed from GEEvaluation:             *)
(*                                                                         *)
(*    while not budget.is_done(tracker):        -- action Check            *)
(*        present a batch to tracker.evaluate   -- actions Fresh / Old     *)
(*    return tracker.get_best_individual()      -- action Return           *)
(*                                                                         *)
(* A batch has FirstBatch individuals the first time and Batch afterwards  *)
(* (RS, 1+1: 1/1; HC: 1/k; GP: population/population - GP checks the       *)
(* budget once per generation).  A batch member is either FRESH (a new     *)
(* individual: the fitness function is invoked, any value of Vals may come *)
(* back - TLC explores every fitness history) or OLD (an individual that   *)
(* already has a fitness, re-presented by elitism / selection: no          *)
(* invocation, but the tracker and the recorders see it again).            *)
(* MinFresh is how many fresh individuals every later batch contains at    *)
(* least: 0 models step compositions that only re-present individuals.     *)
(***************************************************************************)
EXTENDS GEEvaluation

CONSTANTS Configs,       \* set of search configurations explored (records, see the fields below)
          MaxInd         \* bound on individuals created

VARIABLE cfg             \* the configuration of this behaviour, chosen in Init, never changed
Vals       == cfg.vals       \* set of fitness values (sequences of ints) the fitness function may return
Mini       == cfg.mini       \* minimise flags, one per component
Multi      == cfg.multi      \* TRUE: multi-objective tracker
FirstBatch == cfg.fb
Batch      == cfg.b
MinFresh   == cfg.minfresh
BudgetN    == cfg.n          \* evaluation budget (0 = none)
Target     == cfg.target     \* target for component 1 (used when HasTarget)
HasTarget  == cfg.hastarget

VARIABLES s,        \* tracker state (GEEvaluation!T0 ...)
          n,        \* individuals created so far
          pc,       \* "check" | "batch" | "ret" | "done"
          pending,  \* members of the current batch still to present
          fresh,    \* fresh members presented in the current batch
          first,    \* first batch not yet presented
          lastrec,  \* the most recent recorder notification [i, flag, expected, attains]
          ret,      \* returned individual
          sinceCheck, \* evaluations since the last budget check (history)
          lastCheck \* verdict and count of the last check (history)

avars == <<cfg, s, n, pc, pending, fresh, first, lastrec, ret, sinceCheck, lastCheck>>
NoRec == [i |-> 0, flag |-> FALSE, expected |-> FALSE, attains |-> TRUE]

BestC1 == IF Multi THEN (IF s.front = <<>> THEN 0 ELSE FitOf(s, s.front[1])[1])
          ELSE (IF s.best = 0 THEN 0 ELSE FitOf(s, s.best)[1])
HasBest == IF Multi THEN s.front # <<>> ELSE s.best # 0

BudgetDone == \/ (BudgetN > 0 /\ EvalBudgetDone(s.count, BudgetN))
              \/ (HasTarget /\ TargetDone(HasBest, BestC1, Target - 1, Target + 1))

Init == /\ cfg \in Configs
        /\ s = T0 /\ n = 0 /\ pc = "check" /\ pending = 0 /\ fresh = 0 /\ first = TRUE
        /\ lastrec = NoRec /\ ret = 0 /\ sinceCheck = 0 /\ lastCheck = [done |-> FALSE, count |-> 0]

Check == /\ pc = "check"
         /\ lastCheck' = [done |-> BudgetDone, count |-> s.count]
         /\ sinceCheck' = 0
         /\ IF BudgetDone THEN pc' = "ret" /\ UNCHANGED <<pending, first>>
            ELSE /\ pc' = "batch" /\ pending' = (IF first THEN FirstBatch ELSE Batch) /\ UNCHANGED first
         /\ fresh' = 0
         /\ UNCHANGED <<cfg, s, n, lastrec, ret>>

Present(i, v, isFresh) ==
    LET s1   == EvalOne(s, i, v, Mini)
        flag == IF Multi THEN NotDominated(s1, i, Mini) ELSE IsNewBest(s1, i, Mini)
        s2   == IF Multi THEN PostMulti(s1, i, Mini) ELSE PostSingle(s1, i, Mini)
    IN  /\ s' = s2
        /\ lastrec' = [i |-> i, flag |-> flag,
                        expected |-> FlagExpected(s, i, FitOf(s1, i), Mini, s.seen = 0),
                        attains |-> Agg(FitOf(s1, i), Mini) = s1.maxagg]
        /\ pending' = pending - 1
        /\ sinceCheck' = sinceCheck + (s1.count - s.count)
        /\ fresh' = fresh + (IF isFresh THEN 1 ELSE 0)

Fresh == /\ pc = "batch" /\ pending > 0 /\ n < MaxInd
         /\ \E v \in Vals : Present(n + 1, v, TRUE)
         /\ n' = n + 1
         /\ UNCHANGED <<cfg, pc, first, ret, lastCheck>>

\* an already evaluated individual is presented again (not in the first batch; only where the
\* remaining slots still allow MinFresh fresh ones)
Old == /\ pc = "batch" /\ pending > 0 /\ ~first
       /\ pending - 1 >= MinFresh - fresh
       /\ \E i \in s.ids : Present(i, FitOf(s, i), FALSE)
       /\ UNCHANGED <<cfg, n, pc, first, ret, lastCheck>>

EndBatch == /\ pc = "batch" /\ pending = 0
            /\ pc' = "check" /\ first' = FALSE
            /\ UNCHANGED <<cfg, s, n, pending, fresh, lastrec, ret, sinceCheck, lastCheck>>

Return == /\ pc = "ret"
          /\ ret' = IF Multi THEN (IF s.front = <<>> THEN 0 ELSE s.front[1]) ELSE s.best
          /\ pc' = "done"
          /\ UNCHANGED <<cfg, s, n, pending, fresh, first, lastrec, sinceCheck, lastCheck>>

Next == Check \/ Fresh \/ Old \/ EndBatch \/ Return
Spec == Init /\ [][Next]_avars
FairSpec == Spec /\ WF_avars(Next)

-----------------------------------------------------------------------------
(* C12 *)
TrackerBest  == IF Multi THEN FrontAttainsMax(s, Mini) ELSE BestIsBest(s, Mini) /\ BestAttainsMax(s, Mini)
FlagExact    == IF Multi THEN (lastrec.flag => lastrec.attains)
                ELSE lastrec.flag = lastrec.expected
ReturnsBest  == pc = "done" =>
                   IF Multi THEN (s.front # <<>> => ret \in RangeOf(s.front))
                   ELSE ret = s.best
(* C13 *)
HonestCounting == AtMostOnce(s) /\ CountHonest(s)
(* C14: the search stops at the first check at which the budget predicate holds:
   the last check's verdict was exactly the predicate; once "ret" nothing is evaluated;
   between two checks at most one batch is evaluated *)
StopRule ==
    /\ sinceCheck <= (IF first THEN FirstBatch ELSE Batch)
    /\ pc \in {"ret", "done"} => lastCheck.done /\ sinceCheck = 0
    /\ (pc \in {"ret", "done"} /\ BudgetN > 0 /\ ~HasTarget)
          => /\ s.count >= BudgetN
             /\ s.count < BudgetN + (IF BudgetN <= FirstBatch THEN FirstBatch ELSE Batch)
AfterDoneNothing == [][(pc \in {"ret", "done"}) => (s' = s)]_avars
(* liveness: with an evaluation budget the search terminates *)
Terminates == <>(pc = "done")

Bounded == n <= MaxInd

=============================================================================
