---------------------------- MODULE MC_Parallel ----------------------------
EXTENDS GEBase
CONSTANT Pairing
VARIABLES pop, pending, wstate, finished, store, count, pc
MCPops == {<<1>>, <<1, 2>>, <<1, 2, 3>>, <<1, 2, 3, 4>>, <<1, 2, 1, 3>>, <<2, 2>>, <<3, 1, 4, 1>>, <<4, 3, 2, 1>>}
MCFF == [i \in 1..4 |-> <<i * 10>>]
INSTANCE GEParallel WITH Pops <- MCPops, PreEval <- {2}, FF <- MCFF, Workers <- 3
=============================================================================
