------------------------------- MODULE MC_Syn -------------------------------
(* Model-checking instance of GESynthesis over the grammar family of GEFamily. *)
EXTENDS GEFamily

CONSTANTS MaxProds, PoolIdx, Deciders, Offsets, Dev, MaxPlainLen
VARIABLES G, dec, maxd, term, pc

Productive(g) == MinDepthV(g, Dev)[g.start] < INF
Grammars == {MkG(S) : S \in {S \in SUBSET PoolIdx : S # {} /\ Cardinality(S) <= MaxProds /\ Closed(S) /\ Productive(MkG(S))}}

OffsetsAround == {-1, 0, 1}
OffsetsWide == {-1, 0, 1, 2}
DevNone == {}
DevAsCoded == {"list-assumed-nonempty"}

INSTANCE GESynthesis
=============================================================================
