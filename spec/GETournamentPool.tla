-------------------------- MODULE GETournamentPool --------------------------
(***************************************************************************)
(* Where the tournaments of one selection pass draw their participants     *)
(* from (TournamentSelection.iterate).  Individuals are their own fitness  *)
(* (distinct naturals), a tournament draws 1..TSize participants from the  *)
(* available pool and its maximum wins.                                    *)
(*   Variant "design"  : as documented - every tournament draws from the   *)
(*                       population; without replacement a winner leaves   *)
(*                       the pool, which is refilled when it runs empty    *)
(*   Variant "ascoded" : candidates = [choice(candidates) ...] rebinds the *)
(*                       pool to the PARTICIPANTS of the tournament        *)
(* PoolIntact says nobody but earlier winners is ever excluded from a      *)
(* tournament; it holds for the design and fails as coded (advisory: no    *)
(* listed property demands it, see Trace_Tournament).                      *)
(***************************************************************************)
EXTENDS Naturals, FiniteSets, Sequences

CONSTANTS Pool, TSize, Target, Repl, Variant
VARIABLES avail, out, gone

pvars == <<avail, out, gone>>
Max(S) == CHOOSE x \in S : \A y \in S : y <= x

Init == avail = Pool /\ out = <<>> /\ gone = {}

Tournament ==
    /\ Len(out) < Target
    /\ \E parts \in SUBSET avail :
          /\ parts # {} /\ Cardinality(parts) <= TSize
          /\ LET w    == Max(parts)
                 base == IF Variant = "design" THEN avail ELSE parts
                 rest == IF Repl THEN base ELSE base \ {w}
             IN /\ out' = Append(out, w)
                /\ avail' = IF rest = {} THEN Pool ELSE rest
                /\ gone' = IF Repl \/ rest = {} THEN {} ELSE gone \cup {w}
Next == Tournament
Spec == Init /\ [][Next]_pvars

\* only winners (since the last refill) are missing from the pool
PoolIntact == avail = Pool \ gone
\* C17's own clauses hold in BOTH variants: winners are members
WinnersAreMembers == \A i \in DOMAIN out : out[i] \in Pool
=============================================================================
