SPECIFICATION Spec
CONSTANT Configs <- SafetyConfigs
CONSTANT MaxInd = 9
INVARIANT TrackerBest
INVARIANT FlagExact
INVARIANT ReturnsBest
INVARIANT HonestCounting
INVARIANT StopRule
PROPERTY AfterDoneNothing
CHECK_DEADLOCK FALSE
