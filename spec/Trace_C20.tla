------------------------------ MODULE Trace_C20 ------------------------------
(***************************************************************************)
(* Trace validation for C20.  An observing recorder placed after the       *)
(* CSVSearchRecorder re-reads the file through its own descriptor after    *)
(* every registration (= what a kill at that moment leaves behind).        *)
(* Events:                                                                 *)
(*   created    [disk, partial]                                            *)
(*   registered [isbest, expect, disk, partial]   expect = the row this    *)
(*              individual must produce ("*" = unconstrained cell)         *)
(*   killed     [disk, partial, completed]   file left by a SIGKILLed run; *)
(*              completed = expected rows of the registrations that had    *)
(*              returned before the kill (logged by the child)             *)
(* Cfg: [header, kinds, onlybest]; kinds[k] in time|pheno|fit|extra|other  *)
(* The abstract state is GECsv's `full`: header + one row per recorded     *)
(* registration.                                                           *)
(***************************************************************************)
EXTENDS GEBase, TraceKit

RowMatch(e, d) == Len(e) = Len(d) /\ \A k \in DOMAIN e : e[k] = "*" \/ e[k] = d[k]
RowsMatch(es, ds) == Len(es) = Len(ds) /\ \A j \in DOMAIN es : RowMatch(es[j], ds[j])
PrefixMatch(ds, es) == Len(ds) <= Len(es) /\ \A j \in DOMAIN ds : RowMatch(es[j], ds[j])

\* "only strict improvements when so configured": for a single objective decided HERE from the observed history of
\* registered aggregates (first, or strictly better than everything registered before), not from the flag the tracker
\* hands to its recorders; for several objectives the tracker's notion of a new best (C12) is taken as given
StrictImprovement(ev) == \A k \in DOMAIN ev.prev : ev.agg > ev.prev[k]
Recorded(ev) == ~Cfg.onlybest \/ (IF Cfg.nobj = 1 THEN StrictImprovement(ev) ELSE ev.isbest)
FullAfter(full, ev) == IF Recorded(ev) THEN Append(full, ev.expect) ELSE full

\* kind of the first mismatching cell of the first mismatching row
BadCellKind(es, ds) ==
    LET j == SMin({j \in DOMAIN es : ~RowMatch(es[j], ds[j])})
        k == SMin({k \in DOMAIN es[j] : k > Len(ds[j]) \/ ~(es[j][k] = "*" \/ es[j][k] = ds[j][k])} \cup {Len(es[j]) + 1})
    IN IF j = 1 THEN "header"
       ELSE IF Len(es[j]) # Len(ds[j]) THEN "arity"
       ELSE Cfg.kinds[k]

C20Clause(full, ev) ==
    CASE ev.e = "created" ->
           IF ev.partial # "" THEN "C20:partial-row-on-disk"
           ELSE IF ev.disk # <<Cfg.header>> THEN "C20:header" ELSE "ok"
      [] ev.e = "registered" ->
           LET f2 == FullAfter(full, ev) IN
           IF ev.partial # "" THEN "C20:partial-row-on-disk"
           ELSE IF Len(ev.disk) # Len(f2) THEN "C20:row-count"
           ELSE IF RowsMatch(f2, ev.disk) THEN "ok"
           ELSE LET kd == BadCellKind(f2, ev.disk) IN
                CASE kd = "fit"    -> "C20:fitness-column"
                  [] kd = "extra"  -> "C20:extra-field"
                  [] kd = "header" -> "C20:header"
                  [] OTHER         -> "C20:cell"
      [] ev.e = "killed" ->
           IF ev.partial # "" THEN "C20:partial-row-on-disk"
           ELSE IF Len(ev.disk) < Len(ev.completed) + 1 THEN "C20:registered-row-lost"
           ELSE IF ~PrefixMatch(ev.disk, <<Cfg.header>> \o ev.all) THEN "C20:not-a-prefix"
           ELSE "ok"
      [] ev.e = "sessionfail" -> "C20:recorder-raises"      \* building a recorder / registering an individual raised
      [] OTHER -> "C20:unknown-event"

C20Attrs(full, ev) ==
    <<Cfg.via, IF Cfg.onlybest THEN "only-best" ELSE "all", ToString(Cfg.nobj) \o "-objectives",
      ToString(Cfg.nextra) \o "-extra">>

C20Effect(full, ev) == IF ev.e = "registered" THEN FullAfter(full, ev) ELSE full

TInit   == tid \in 1..NTraces /\ InitWith(<<Cfg.header>>)
TNext   == Step(C20Clause(st, Ev), C20Attrs(st, Ev), C20Effect(st, Ev))
TSpec   == TInit /\ [][TNext]_tvars
Collect == CollectWith("ok")
=============================================================================
