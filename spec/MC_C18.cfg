SPECIFICATION Spec
CONSTANT Variant = "design"
INVARIANT ContractHolds
INVARIANT NoStuck
INVARIANT ShuffleInv
INVARIANT Proportional
VIEW View
CHECK_DEADLOCK FALSE
