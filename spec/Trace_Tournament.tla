---------------------------- MODULE Trace_Tournament ----------------------------
(***************************************************************************)
(* ADVISORY conformance (beyond the listed properties): WHERE tournament   *)
(* selection draws its participants from.                                  *)
(*                                                                         *)
(* Documented design (TournamentSelection docstring): every tournament     *)
(* draws tournament_size individuals "from the population"; without        *)
(* replacement a winner cannot appear in a later tournament (the pool is   *)
(* refilled when it runs empty).  As a machine over bags of individual     *)
(* ids:                                                                    *)
(*     avail = pool                                   (initially)          *)
(*     Draw  : the offered list is avail                                   *)
(*     Win w : avail' = avail                         (with replacement)   *)
(*             avail' = avail - {w}, refilled with pool when empty         *)
(* Events: selstart [pop, repl], draw [offered, ind], win [ind].           *)
(* C17 itself only relates a winner to the participants of its tournament  *)
(* and is decided by Trace_Steps; this module reports, without a verdict,  *)
(* when participants are drawn from something other than the design's      *)
(* pool (e.g. from the participants of the previous tournament).           *)
(***************************************************************************)
EXTENDS GEBase, TraceKit

DropOne(s, id) == IF \E i \in DOMAIN s : s[i] = id THEN DropAt(s, SMin({i \in DOMAIN s : s[i] = id})) ELSE s

T0 == [pool |-> <<>>, avail |-> <<>>, repl |-> FALSE, wins |-> 0]

Clause(s, ev) ==
    CASE ev.e = "draw" ->
             IF SameBag(ev.offered, s.avail) THEN "ok"
             ELSE IF Len(ev.offered) < Len(s.avail) /\ BagLeq(ev.offered, s.avail)
                  THEN "tournament:participants-drawn-from-a-shrunken-pool"
                  ELSE "tournament:participants-drawn-from-elsewhere"
      [] OTHER -> "ok"
Attrs(s, ev) == IF ev.e = "draw" THEN <<IF s.repl THEN "with-replacement" ELSE "without-replacement",
                                        IF s.wins = 0 THEN "first-tournament" ELSE "later-tournament">> ELSE <<>>

Eff(s, ev) ==
    CASE ev.e = "selstart" -> [T0 EXCEPT !.pool = ev.ids, !.avail = ev.ids, !.repl = ev.repl]
      [] ev.e = "win" -> LET a == IF s.repl THEN s.avail ELSE DropOne(s.avail, ev.ind.id)
                         IN [s EXCEPT !.wins = s.wins + 1, !.avail = IF a = <<>> THEN s.pool ELSE a]
      [] OTHER -> s

TInit   == tid \in 1..NTraces /\ InitWith(T0)
TNext   == Step(Clause(st, Ev), Attrs(st, Ev), Eff(st, Ev))
TSpec   == TInit /\ [][TNext]_tvars
Collect == CollectWith("ok")
=============================================================================
