------------------------------- MODULE GEBase -------------------------------
(***************************************************************************)
(* Helpers shared by every module of the GeneticEngine specification:      *)
(* finite max/min, sums, sequences as bags, permutations, rationals as     *)
(* <<num, den>> pairs.  No state; operators only.                          *)
(***************************************************************************)
EXTENDS Naturals, Integers, Sequences, FiniteSets, TLC

INF == 1000000          \* the library's INF_VALUE (grammar.py)

SMax(S) == CHOOSE x \in S : \A y \in S : y <= x
SMin(S) == CHOOSE x \in S : \A y \in S : x <= y
SMax0(S) == IF S = {} THEN 0 ELSE SMax(S)

Abs(x) == IF x < 0 THEN -x ELSE x

RangeOf(s) == {s[i] : i \in DOMAIN s}

RECURSIVE SeqSum(_)
SeqSum(s) == IF s = <<>> THEN 0 ELSE Head(s) + SeqSum(Tail(s))

RECURSIVE SeqMax(_)
SeqMax(s) == IF Len(s) = 1 THEN s[1]
             ELSE LET m == SeqMax(Tail(s)) IN IF s[1] >= m THEN s[1] ELSE m

RECURSIVE SeqMin(_)
SeqMin(s) == IF Len(s) = 1 THEN s[1]
             ELSE LET m == SeqMin(Tail(s)) IN IF s[1] <= m THEN s[1] ELSE m

\* number of occurrences of x in s
CountOf(s, x) == Cardinality({i \in DOMAIN s : s[i] = x})

\* s and t are permutations of each other (equal as bags)
SameBag(s, t) == /\ Len(s) = Len(t)
                 /\ \A i \in DOMAIN s : CountOf(s, s[i]) = CountOf(t, s[i])

\* s is a sub-bag of t
BagLeq(s, t) == \A i \in DOMAIN s : CountOf(s, s[i]) <= CountOf(t, s[i])

\* remove the element at (1-based) position i
DropAt(s, i) == [j \in 1..(Len(s) - 1) |-> IF j < i THEN s[j] ELSE s[j + 1]]

\* swap positions i and j (1-based)
SwapAt(s, i, j) == [k \in DOMAIN s |-> IF k = i THEN s[j] ELSE IF k = j THEN s[i] ELSE s[k]]

IsPrefixOf(s, t) == Len(s) <= Len(t) /\ \A i \in DOMAIN s : s[i] = t[i]

\* prefix sums of a sequence of naturals
RECURSIVE PrefixSums(_, _)
PrefixSums(s, acc) == IF s = <<>> THEN <<>>
                      ELSE <<acc + Head(s)>> \o PrefixSums(Tail(s), acc + Head(s))
Accumulate(s) == PrefixSums(s, 0)

\* first (1-based) index i with P(s[i]); 0 if none
FirstIdx(s, P(_)) == IF \E i \in DOMAIN s : P(s[i])
                     THEN SMin({i \in DOMAIN s : P(s[i])}) ELSE 0

\* integer power, small exponents only
RECURSIVE Pow(_, _)
Pow(b, e) == IF e = 0 THEN 1 ELSE b * Pow(b, e - 1)

\* Python's floor modulo for a positive modulus (TLC's % already is one for m > 0)
PMod(x, m) == x % m

\* Python's round(x / y) for naturals x, y > 0: round half to even
RoundDiv(x, y) == LET q == x \div y  r2 == 2 * (x % y)
                  IN IF r2 < y THEN q
                     ELSE IF r2 > y THEN q + 1
                     ELSE IF q % 2 = 0 THEN q ELSE q + 1

\* functional iteration
RECURSIVE Iter(_, _, _)
Iter(F(_), x, n) == IF n = 0 THEN x ELSE Iter(F, F(x), n - 1)
=============================================================================
