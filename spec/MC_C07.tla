------------------------------- MODULE MC_C07 -------------------------------
EXTENDS GEBase
CONSTANTS Dynamic, Purity
VARIABLES shared, genes, need, memo, steps, lastMapDraws
INSTANCE GEMapping WITH MaxGenotypes <- 3, MaxSteps <- 6
=============================================================================
