------------------------------ MODULE Trace_GEMap ------------------------------
(* Functional conformance of the GE mapping (registered under C07): for recorded mappings of genotypes with small
   genes the phenotype must EQUAL GEMapFn!MapForm evaluated by TLC on the same genes, with the implementation's
   production order and reported distances.   Event gemap [genes, d, prog, exc] *)
EXTENDS GEMapFn, TraceKit

G == Cfg.g
Defined == \A c \in Names(G) : \A j \in DOMAIN Fields(G, c) : FormDefined(Fields(G, c)[j].f)

Expected(ev) == MapForm(G, Cfg.impl0.alts, Cfg.impl0.dist, ev.genes, StartForm(G), 0, 0, ev.d).t

Clause(ev) == IF ev.e # "gemap" \/ ev.exc # "" \/ ~Defined THEN "ok"
              ELSE IF Expected(ev) # ev.prog THEN "C07:mapping-function" ELSE "ok"
Attrs(ev) == <<ev.rep, "grow">>

TInit   == tid \in 1..NTraces /\ InitWith(0)
TNext   == Step(Clause(Ev), Attrs(Ev), st)
TSpec   == TInit /\ [][TNext]_tvars
Collect == CollectWith("ok")
=============================================================================
