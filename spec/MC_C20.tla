------------------------------- MODULE MC_C20 -------------------------------
EXTENDS GEBase
CONSTANTS FlushPolicy, OnlyBest
VARIABLES buf, disk, nreg, full, pc, crashed
MCRegs == {[comps |-> c, isbest |-> b] : c \in {<<1, 2>>, <<2, 1>>, <<3, 3>>}, b \in BOOLEAN}
INSTANCE GECsv WITH NObj <- 2, Regs <- MCRegs, MaxRegs <- 4
=============================================================================
