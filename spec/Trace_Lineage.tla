----------------------------- MODULE Trace_Lineage -----------------------------
(***************************************************************************)
(* ADVISORY conformance (beyond the listed properties): what the local-    *)
(* search algorithms are documented to do with their individuals.          *)
(*   RandomSearch  : every individual is freshly created                   *)
(*   OnePlusOne    : "(1+1) EA": after the first, each individual is a     *)
(*                   mutation of the current best                          *)
(*   HC            : "local search within a neighbourhood": after the      *)
(*                   first, each batch holds mutations of the current best *)
(* Events: born [tok, how, ptoks] (lineage of the individual whose         *)
(* phenotype carries token tok), ff [tok, ret] (its fitness).              *)
(* State: the tokens that attain the best aggregate so far.                *)
(***************************************************************************)
EXTENDS GEEvaluation, TraceKit

Mini == Cfg.mini
S0 == [has |-> FALSE, best |-> 0, besttoks |-> {}, born |-> 0]

Clause(s, ev) ==
    IF ev.e # "born" THEN "ok"
    ELSE CASE Cfg.alg = "RS"  -> IF ev.how # "create" THEN "RS:individual-not-freshly-created" ELSE "ok"
           [] Cfg.alg \in {"OPO", "HC"} ->
                IF s.born = 0 THEN (IF ev.how # "create" THEN "LS:first-individual-not-created" ELSE "ok")
                ELSE IF ev.how # "mutate" THEN Cfg.alg \o ":offspring-is-not-a-mutation"
                ELSE IF ~(\E i \in DOMAIN ev.ptoks : ev.ptoks[i] \in s.besttoks) THEN Cfg.alg \o ":mutated-parent-is-not-the-current-best"
                ELSE "ok"
           [] OTHER -> "ok"

Eff(s, ev) ==
    CASE ev.e = "born" -> [s EXCEPT !.born = s.born + 1]
      [] ev.e = "ff" -> LET a == Agg(ev.ret, Mini) IN
                        IF ~s.has \/ a > s.best THEN [s EXCEPT !.has = TRUE, !.best = a, !.besttoks = {ev.tok}]
                        ELSE IF a = s.best THEN [s EXCEPT !.besttoks = s.besttoks \cup {ev.tok}] ELSE s
      [] OTHER -> s

TInit   == tid \in 1..NTraces /\ InitWith(S0)
TNext   == Step(Clause(st, Ev), <<Cfg.alg>>, Eff(st, Ev))
TSpec   == TInit /\ [][TNext]_tvars
Collect == CollectWith("ok")
=============================================================================
