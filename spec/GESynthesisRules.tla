--------------------------- MODULE GESynthesisRules ---------------------------
(***************************************************************************)
(* The choice rules of the depth-limited deciders                          *)
(* (initializations.py: MaxDepthDecider, FullDecider,                      *)
(* PositionIndependentGrowDecider), as operators over                      *)
(*   D(f)      the distance to terminal of an alternative (a type form)    *)
(*   IsRec(f)  is the alternative a recursive production                   *)
(*   alts      the set of alternatives offered, c the context depth,       *)
(*   maxd      the decider's maximum depth.                                *)
(* Used by the derivation machine (GESynthesis, with the distances of the  *)
(* analysis GEGrammar) and by the decision-level trace specification       *)
(* (Trace_Derive, with the distances the implementation reports).          *)
(***************************************************************************)
EXTENDS GEMeta

SymF(s) == [k |-> "sym", s |-> s, es |-> <<>>, mh |-> [k |-> "none"]]

GrowSetD(D(_), alts, c, maxd) == {a \in alts : D(a) <= maxd - c}
FullSetD(D(_), IsRec(_), alts, c, maxd) ==
    LET pref == {a \in alts : (IsRec(a) /\ D(a) < maxd - c) \/ D(a) = maxd - c - 1}
    IN IF c <= maxd /\ pref # {} THEN pref ELSE GrowSetD(D, alts, c, maxd)
\* PI-grow keeps a flag ("still expanding towards the maximum depth"); both of its modes are allowed here
PiSetsD(D(_), IsRec(_), alts, c, maxd) ==
    LET rec == {a \in alts : IsRec(a) /\ D(a) < maxd - c}
    IN {GrowSetD(D, alts, c, maxd)} \cup (IF rec # {} THEN {rec} ELSE {})
\* ProgressivelyTerminalDecider: no depth limit; an alternative is drawn with weight
\*     (depth factor) * (grammar weight),   depth factor = target \div (c + 1)   for a recursive production
\*                                                       = target - D(a)         otherwise
\* and when every product is zero the choice is, by grammar weight, among the alternatives CLOSEST TO A TERMINAL
\* (fallback = "closest"); fallback = "any" is the rule before the repair (any alternative, by grammar weight).
PtFactor(D(_), IsRec(_), a, c, target) == IF IsRec(a) THEN target \div (c + 1) ELSE target - D(a)
PtSetD(D(_), IsRec(_), W(_), alts, c, target, fallback) ==
    LET pos     == {a \in alts : PtFactor(D, IsRec, a, c, target) > 0 /\ W(a) > 0}     \* the product is positive (weights are >= 0)
        usable  == IF {a \in alts : W(a) > 0} # {} THEN {a \in alts : W(a) > 0} ELSE alts
        closest == {a \in usable : \A b \in usable : D(a) <= D(b)}
    IN IF pos # {} THEN pos ELSE IF fallback = "closest" THEN closest ELSE usable

ChoicesD(D(_), IsRec(_), d, alts, c, maxd) ==
    CASE d = "grow"   -> GrowSetD(D, alts, c, maxd)
      [] d = "full"   -> FullSetD(D, IsRec, alts, c, maxd)
      [] d = "pigrow" -> UNION PiSetsD(D, IsRec, alts, c, maxd)
      [] d = "pt"     -> alts                \* ProgressivelyTerminalDecider: no depth limit
      [] OTHER -> {}
=============================================================================
