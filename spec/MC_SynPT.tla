------------------------------ MODULE MC_SynPT ------------------------------
(***************************************************************************)
(* GESynthesis with the decider that has NO depth limit                    *)
(* (ProgressivelyTerminalDecider), over the grammars of GEFamily in which  *)
(* every reachable symbol is productive.  TLC explores every derivation;   *)
(* PtDepthBounded (and the finiteness of the state graph itself) is the    *)
(* termination argument: past the target depth the decider heads for a     *)
(* terminal.  MC_SynPT_anyfallback is the rule before the repair (any      *)
(* alternative once every depth factor is zero) and MUST violate it.       *)
(***************************************************************************)
EXTENDS GEFamily

CONSTANTS MaxProds, PoolIdx, Deciders, Offsets, Dev, MaxPlainLen
VARIABLES G, dec, maxd, term, pc

AllProductive(g) == \A s \in Reachable(g) : MinDepth(g)[s] < INF
Grammars == {MkG(S) : S \in {S \in SUBSET PoolIdx : S # {} /\ Cardinality(S) <= MaxProds /\ Closed(S) /\ AllProductive(MkG(S))}}

OffsetsZero == {0}
\* list lengths are drawn without regard to depth (as the implementation does): there is no limit to respect
DevAsCoded == {"list-assumed-nonempty"}
DevPtAny == {"list-assumed-nonempty", "pt-fallback-any"}

INSTANCE GESynthesis

\* keeps the exploration of the unrepaired rule finite: one level beyond the bound is enough to see the violation
WithinSight == PartialDepth(term) <= PtBound(G) + 1
=============================================================================
