------------------------------ MODULE Trace_C05 ------------------------------
(***************************************************************************)
(* Conformance of the library's grammar analysis with GEGrammar (C05).     *)
(* A trace is one class hierarchy: Cfg.g is the DECLARED grammar (read     *)
(* from the classes, independently of extract_grammar); the events carry   *)
(* the projection of the Grammar objects the library built from it.        *)
(***************************************************************************)
EXTENDS GEProgram, TraceKit

G == Cfg.g
Registered(impl) == RangeOf(impl.nodes) \cap Names(G)

AltsOK(impl) ==
    /\ \A i \in DOMAIN impl.altkeys :
          LET a == impl.altkeys[i] IN
             a \in Names(G) => /\ RangeOf(impl.alts[a]) = Prods(G, a)
                               /\ Len(impl.alts[a]) = Cardinality(Prods(G, a))
    /\ \A a \in Registered(impl) : (IsAbs(G, a) /\ Prods(G, a) # {}) => a \in RangeOf(impl.altkeys)

\* in the usable sub-grammar a registered ancestor keeps only its reachable productions
UsableAltsOK(impl) ==
    \A i \in DOMAIN impl.altkeys :
       LET a == impl.altkeys[i] IN
          a \in Names(G) => /\ RangeOf(impl.alts[a]) = Prods(G, a) \cap Registered(impl)
                            /\ Len(impl.alts[a]) = Cardinality(RangeOf(impl.alts[a]))

Expected(impl) == IF impl.expd THEN MinDepthX(G) ELSE MinDepth(G)
DistBad(impl) == {c \in Registered(impl) : c \notin DOMAIN impl.dist \/ impl.dist[c] # Expected(impl)[c]}
\* root causes: wrong classes all of whose mentioned symbols are right
DistRoots(impl) == {c \in DistBad(impl) : Mentions(G, c) \cap DistBad(impl) = {}}
DistApplies(impl) == TRUE         \* both depth-counting modes, every form

\* diagnosis: the smallest set of named deviations (GEGrammar!Deviations) under which the
\* specification reproduces the implementation's numbers; "unexplained" if there is none
Explains(impl, Dev) == \A c \in Registered(impl) : c \in DOMAIN impl.dist /\
                           impl.dist[c] = (IF impl.expd THEN MinDepthXV(G, Dev) ELSE MinDepthV(G, Dev))[c]
DevOrder == <<"bool-costs-1", "union-max", "list-assumed-nonempty">>
DevSig(Dev) == LET RECURSIVE Go(_)
                   Go(i) == IF i > Len(DevOrder) THEN ""
                            ELSE (IF DevOrder[i] \in Dev THEN DevOrder[i] \o ";" ELSE "") \o Go(i + 1)
               IN Go(1)
\* ambiguous diagnoses are resolved towards the deviation listed first in this weighting
DevWeight(Dev) == (IF "list-assumed-nonempty" \in Dev THEN 1 ELSE 0) + (IF "union-max" \in Dev THEN 2 ELSE 0)
                  + (IF "bool-costs-1" \in Dev THEN 4 ELSE 0)
DistSig(impl) ==
    LET mode  == IF impl.expd THEN "expansion" ELSE "default"
        cands == {Dev \in SUBSET Deviations : Explains(impl, Dev)}
    IN IF cands = {} THEN <<mode, "unexplained">>
       ELSE LET k == SMin({DevWeight(Dev) : Dev \in cands})        \* deterministic choice
            IN <<mode, DevSig(CHOOSE Dev \in cands : DevWeight(Dev) = k)>>

KindOrder == <<"list", "union", "tuple", "sym", "ann:ListSize">>
KindSig(S) == LET RECURSIVE Go(_)
                  Go(i) == IF i > Len(KindOrder) THEN ""
                           ELSE (IF KindOrder[i] \in S THEN KindOrder[i] \o ";" ELSE "") \o Go(i + 1)
              IN Go(1)

RecOK(impl) == RangeOf(impl.recursive) \cap Names(G) = RecursiveSet(G) \cap Registered(impl)
RecSig(impl) ==
    LET miss  == (RecursiveSet(G) \cap Registered(impl)) \ RangeOf(impl.recursive)
        extra == (RangeOf(impl.recursive) \cap Names(G)) \ RecursiveSet(G)
        kinds == UNION {ClassKinds(G, c) : c \in miss \cup extra}
    IN <<IF miss # {} THEN "missed" ELSE "spurious", KindSig(kinds)>>

\* the reachable symbols, plus (harmlessly) abstract ancestors of reachable classes: the library
\* registers the parent of every class it registers
Ancestors(S) == {a \in Names(G) : \E c \in S : IsBelow(G, c, a)}
UsableOK(impl) == /\ Reachable(G) \subseteq Registered(impl)
                  /\ Registered(impl) \subseteq Reachable(G) \cup Ancestors(Reachable(G))

\* the declared grammar restricted to the symbols the usable grammar kept
RestrictNames(names) == [G EXCEPT !.names = SelectSeq(G.names, LAMBDA c : c \in names)]

C05Clause(ev) ==
    CASE ev.e = "analysis" ->
           IF ev.exc # "" THEN "C05:extract-raises"
           ELSE IF ev.impl.expd # ev.mode THEN "C05:depth-mode-not-honoured"    \* the grammar counts depth in another mode than requested
           ELSE IF ~AltsOK(ev.impl) THEN "C05:alternatives"
           ELSE IF DistApplies(ev.impl) /\ DistBad(ev.impl) # {} THEN "C05:min-depth"
           ELSE IF ~RecOK(ev.impl) THEN "C05:recursive"
           ELSE "ok"
      [] ev.e = "usable" ->
           IF ev.exc # "" THEN "C05:usable-raises"
           ELSE IF ~UsableOK(ev.impl) THEN "C05:usable-symbols"
           ELSE IF ~UsableAltsOK(ev.impl) THEN "C05:usable-alternatives"
           ELSE "ok"
      [] ev.e = "usable_lang" ->
           IF Lang(RestrictNames(RangeOf(ev.impl.nodes)), StartForm(G), ev.d) = Lang(G, StartForm(G), ev.d)
           THEN "ok" ELSE "C05:usable-language"
      [] OTHER -> "C05:unknown-event"

C05Attrs(ev) ==
    CASE ev.e \in {"analysis", "usable"} /\ ev.exc # "" -> <<ev.exc>>
      [] ev.e = "analysis" /\ ev.impl.expd # ev.mode -> <<IF ev.mode THEN "expansion-requested" ELSE "default-requested">>
      [] ev.e = "analysis" /\ ~AltsOK(ev.impl) -> <<>>
      [] ev.e = "analysis" /\ DistApplies(ev.impl) /\ DistBad(ev.impl) # {} -> DistSig(ev.impl)
      [] ev.e = "analysis" -> RecSig(ev.impl)
      [] OTHER -> <<>>

TInit   == tid \in 1..NTraces /\ InitWith(0)
TNext   == Step(C05Clause(Ev), C05Attrs(Ev), st)
TSpec   == TInit /\ [][TNext]_tvars
Collect == CollectWith("ok")
=============================================================================
