SPECIFICATION Spec
CONSTANT MaxProds = 3
CONSTANT PoolIdx = {1,2,3,4,6,7,8,9,10,11,12}
CONSTANT Deciders = {"pt"}
CONSTANT Offsets <- OffsetsZero
CONSTANT Dev <- DevPtAny
CONSTANT MaxPlainLen = 2
INVARIANT WellTypedWhenDone
INVARIANT NoStuck
INVARIANT PtDepthBounded
PROPERTY GrammarReadOnly
CONSTRAINT WithinSight
CHECK_DEADLOCK FALSE
