SPECIFICATION Spec
CONSTANT Pairing = "position"
INVARIANT ParallelEqualsSequential
CHECK_DEADLOCK FALSE
