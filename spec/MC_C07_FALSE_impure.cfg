SPECIFICATION Spec
CONSTANT Dynamic = FALSE
CONSTANT Purity = "impure"
INVARIANT MapStable
INVARIANT MapDoesNotDraw
PROPERTY AppendOnly
CHECK_DEADLOCK FALSE
