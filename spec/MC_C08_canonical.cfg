SPECIFICATION Spec
CONSTANT Iteration = "canonical"
INVARIANT Agree
CHECK_DEADLOCK FALSE
