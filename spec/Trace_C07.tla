------------------------------ MODULE Trace_C07 ------------------------------
(* Trace validation for C07 against GEMapping: TLC-generated interleavings of mapping calls with other
   uses of the shared random source, replayed on the real genotype-based representations.
   Event map [gid, rep, prog, draws_before, draws_after, genes_before, genes_after, exc]
   (genes as a sequence over a common key order of [has, g], rank-encoded).
   gid names THE GENOTYPE: for ge / sge / stack that is the gene content (two objects with equal genes, mapped by
   any representation object of the grammar, are one genotype); for dsge, whose mapping extends the genes from the
   shared source, it is the object. *)
EXTENDS GEMeta, TraceKit

Get(f, k, d) == IF k \in DOMAIN f THEN f[k] ELSE d
Put(f, k, v) == [j \in DOMAIN f \cup {k} |-> IF j = k THEN v ELSE f[j]]

GeneCount(gs) == SeqSum([k \in DOMAIN gs |-> Len(gs[k].g)])
\* on-demand extension only: every gene present before is still there, at the same place
Extends(b, a) == \A k \in DOMAIN b : b[k].has => (a[k].has /\ IsPrefixOf(b[k].g, a[k].g))
Appended(b, a) == GeneCount(a) - GeneCount(b)

Clause(memo, ev) ==
    IF ev.e # "map" \/ ev.exc # "" THEN "ok"
    ELSE IF ev.rep = "dsge" /\ ~Extends(ev.genes_before, ev.genes_after) THEN "C07:extension-rule"
    ELSE IF ev.rep # "dsge" /\ ev.genes_before # ev.genes_after THEN "C07:genotype-modified"
    ELSE IF ev.draws_after - ev.draws_before # (IF ev.rep = "dsge" THEN Appended(ev.genes_before, ev.genes_after) ELSE 0)
         THEN "C07:shared-stream-advanced"
    ELSE IF ev.gid \in DOMAIN memo /\ memo[ev.gid] # ev.prog THEN "C07:map-unstable"
    ELSE "ok"

Attrs(memo, ev) == <<ev.rep, Cfg.refined>>
Eff(memo, ev) == IF ev.e = "map" /\ ev.exc = "" /\ ev.gid \notin DOMAIN memo THEN Put(memo, ev.gid, ev.prog) ELSE memo

TInit   == tid \in 1..NTraces /\ InitWith(<<>>)
TNext   == Step(Clause(st, Ev), Attrs(st, Ev), Eff(st, Ev))
TSpec   == TInit /\ [][TNext]_tvars
Collect == CollectWith("ok")
=============================================================================
