------------------------------- MODULE GESteps -------------------------------
(***************************************************************************)
(* The step algebra of genetic programming                                 *)
(* (geneticengine/algorithms/gp/operators/*.py, gp/structure.py):          *)
(* leaves Elitism, Novelty, Tournament, Lexicase, Mutation, Crossover,     *)
(* Identity and the combinators Sequence, Parallel, ExclusiveParallel.     *)
(*                                                                         *)
(* A step is a tree  [k |-> kind, subs |-> <<steps>>, ws |-> <<weights>>]. *)
(* This module gives (a) the LENGTH semantics needed by C15 - how many     *)
(* individuals a step yields when asked for k on an input of inLen - and   *)
(* (b) the selection predicates of C16 (elitism) and C17 (tournament,      *)
(* lexicase) on populations of fitness vectors.                            *)
(*                                                                         *)
(* Split = "design"  : a parallel step may divide k among its sub-steps in *)
(*                     ANY way that sums to k and gives nothing to a zero  *)
(*                     weight (every correct rounding strategy refines it) *)
(* Split = "ascoded" : compute_ranges of the pinned tree, transcribed      *)
(*                     literally (shares of len(population) rounded        *)
(*                     half-to-even, last slice patched on undershoot only)*)
(***************************************************************************)
EXTENDS GEBase

ERR == -1      \* the step raises instead of yielding

Leaf(kind)        == [k |-> kind, subs |-> <<>>, ws |-> <<>>]
Comb(kind, subs, ws) == [k |-> kind, subs |-> subs, ws |-> ws]

MinOf(a, b) == IF a <= b THEN a ELSE b

\* all ways of writing k as an ordered sum of Len(ws) naturals, nothing for zero weights
RECURSIVE SplitsDesign(_, _)
SplitsDesign(ws, k) ==
    IF Len(ws) = 0 THEN (IF k = 0 THEN {<<>>} ELSE {})
    ELSE LET first == IF ws[1] = 0 THEN {0} ELSE 0..k
         IN UNION {{<<a>> \o r : r \in SplitsDesign(Tail(ws), k - a)} : a \in first}

\* ParallelStep.compute_ranges as coded at ed6bf22
SplitAsCoded(ws, inLen, k) ==
    LET total  == SeqSum(ws)
        shares == [i \in DOMAIN ws |-> RoundDiv(ws[i] * inLen, total)]
        cum    == Accumulate(shares)
        idx    == <<0>> \o cum
        n      == Len(ws)
        lastStart == idx[n]
        lastEnd   == IF lastStart < k THEN k ELSE idx[n + 1]
    IN [i \in DOMAIN ws |-> IF i = n THEN lastEnd - lastStart ELSE idx[i + 1] - idx[i]]
\* ExclusiveParallelStep.iterate as coded: the last slice always ends at target_size
XSplitAsCoded(ws, inLen, k) ==
    LET total  == SeqSum(ws)
        shares == [i \in DOMAIN ws |-> RoundDiv(ws[i] * inLen, total)]
        idx    == <<0>> \o Accumulate(shares)
        n      == Len(ws)
    IN [i \in DOMAIN ws |-> IF i = n THEN k - idx[n] ELSE idx[i + 1] - idx[i]]

Splits(Split, kind, ws, inLen, k) ==
    IF Split = "design" THEN SplitsDesign(ws, k)
    ELSE IF kind = "par" THEN {SplitAsCoded(ws, inLen, k)} ELSE {XSplitAsCoded(ws, inLen, k)}

-----------------------------------------------------------------------------
(* OutLens(step, inLen, k): the set of lengths the step may yield when     *)
(* asked for k individuals on an input of inLen individuals.               *)
AddAll(S, T) == {IF a = ERR \/ b = ERR THEN ERR ELSE a + b : a \in S, b \in T}

RECURSIVE OutLens(_, _, _, _)
RECURSIVE SeqLens(_, _, _, _)
RECURSIVE ParLens(_, _, _, _, _, _)
OutLens(Split, step, inLen, k) ==
    IF k < 0 THEN {ERR}
    ELSE CASE step.k = "novelty"  -> {k}
      [] step.k \in {"elitism", "identity", "evaluate", "mutation"} -> {MinOf(inLen, k)}
      [] step.k \in {"tournament"} -> IF k = 0 THEN {0} ELSE IF inLen >= 1 THEN {k} ELSE {ERR}
      [] step.k = "lexicase"   -> IF inLen >= k THEN {k} ELSE {ERR}
      [] step.k = "crossover"  -> IF k = 0 THEN {0} ELSE IF inLen >= 2 /\ k <= inLen THEN {k}
                                  ELSE IF inLen = 1 /\ k = 1 THEN {1} ELSE {ERR}
      [] step.k = "seq"  -> SeqLens(Split, step.subs, inLen, k)
      [] step.k \in {"par", "xpar"} ->
             UNION {ParLens(Split, step.k, step.subs, sp, inLen, 0) : sp \in Splits(Split, step.k, step.ws, inLen, k)}
      [] OTHER -> {ERR}

SeqLens(Split, subs, inLen, k) ==
    IF subs = <<>> THEN {inLen}
    ELSE UNION {IF m = ERR THEN {ERR} ELSE SeqLens(Split, Tail(subs), m, k) : m \in OutLens(Split, Head(subs), inLen, k)}

\* offset = start of the current slice of the input (exclusive parallel only)
ParLens(Split, kind, subs, sp, inLen, offset) ==
    IF subs = <<>> THEN {0}
    ELSE LET ki    == Head(sp)
             avail == IF kind = "par" THEN inLen
                      ELSE (IF offset >= inLen THEN 0 ELSE MinOf(ki, inLen - offset))   \* npopulation[start:end]
             here  == IF kind = "par" /\ ki <= 0 THEN {0}          \* `if end - start > 0`
                      ELSE IF ki < 0 THEN {ERR}
                      ELSE OutLens(Split, Head(subs), avail, ki)
         IN AddAll(here, ParLens(Split, kind, Tail(subs), Tail(sp), inLen, offset + (IF ki > 0 THEN ki ELSE 0)))

\* C15, step level: asked for k on an input of at least k, every possible outcome has length k
YieldsExactly(Split, step, inLen, k) == OutLens(Split, step, inLen, k) = {k}

-----------------------------------------------------------------------------
(* C16 / C17: selection predicates.  A population is a sequence of          *)
(* individuals [id, f] with f a sequence of integer components; better-ness *)
(* is on the maximising aggregate (GEEvaluation!Agg).                       *)
AggOf(f, mini) == SeqSum([k \in DOMAIN f |-> IF mini[k] THEN -f[k] ELSE f[k]])

\* elitism: exactly k, a sub-bag of the input, nobody excluded is strictly better than somebody included
EliteOK(pop, out, k, mini) ==
    /\ Len(out) = MinOf(k, Len(pop))
    /\ BagLeq([i \in DOMAIN out |-> out[i].id], [i \in DOMAIN pop |-> pop[i].id])
    /\ LET outIds == [i \in DOMAIN out |-> out[i].id]
           \* excluded occurrences: pop minus out as bags
           excluded == {i \in DOMAIN pop : CountOf([j \in 1..i |-> pop[j].id], pop[i].id) > CountOf(outIds, pop[i].id)}
       IN \A e \in excluded : \A j \in DOMAIN out : AggOf(pop[e].f, mini) <= AggOf(out[j].f, mini)

\* tournament: the winner is a participant and no participant is strictly better
TournamentOK(popIds, parts, w, mini) ==
    /\ \A i \in DOMAIN parts : parts[i].id \in popIds
    /\ \E i \in DOMAIN parts : parts[i].id = w.id
    /\ \A i \in DOMAIN parts : AggOf(parts[i].f, mini) <= AggOf(w.f, mini)

\* lexicase filter: keep the candidates that are best on each case in turn
BestOn(cands, c, mini) ==
    LET vals == {cands[i].f[c] : i \in DOMAIN cands}
        best == IF mini[c] THEN SMin(vals) ELSE SMax(vals)
    IN SelectSeq(cands, LAMBDA x : x.f[c] = best)
RECURSIVE Survivors(_, _, _)
Survivors(cands, order, mini) ==
    IF Len(cands) <= 1 \/ order = <<>> THEN cands
    ELSE Survivors(BestOn(cands, Head(order), mini), Tail(order), mini)
LexicaseOK(cands, order, w, mini) == \E i \in DOMAIN Survivors(cands, order, mini) : Survivors(cands, order, mini)[i].id = w.id
=============================================================================
