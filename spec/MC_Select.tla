------------------------------ MODULE MC_Select ------------------------------
(***************************************************************************)
(* Model-level check of the selection steps (C16, C17): TLC explores every *)
(* population of up to MaxPop individuals over a small fitness alphabet,   *)
(* both directions, every k / tournament size, and EVERY outcome of the    *)
(* random draws (participants, shuffles, tie-breaking choices).            *)
(* Order = "best-first" is the design (sort_population sorts best first);  *)
(* Order = "worst-first" is a sensitivity guard that TLC must reject.      *)
(***************************************************************************)
EXTENDS GESteps

CONSTANTS MaxPop, Order

V1 == {<<1>>, <<2>>, <<3>>}
V2 == {<<0, 0>>, <<0, 1>>, <<1, 0>>, <<1, 1>>}
PopsOver(V) == UNION {{[i \in 1..n |-> [id |-> i, f |-> g[i]]] : g \in [1..n -> V]} : n \in 1..MaxPop}

VARIABLES kind, pop, mini, k, tsize, repl, cands, parts, order, out, pc, lastOK
mvars == <<kind, pop, mini, k, tsize, repl, cands, parts, order, out, pc, lastOK>>

InitElite == /\ kind = "elitism" /\ pop \in PopsOver(V1) /\ mini \in {<<FALSE>>, <<TRUE>>}
             /\ k \in 1..MaxPop /\ k <= Len(pop) /\ tsize = 0 /\ repl = FALSE
InitTour  == /\ kind = "tournament" /\ pop \in PopsOver(V1) /\ mini \in {<<FALSE>>, <<TRUE>>}
             /\ k \in 1..2 /\ tsize \in 1..3 /\ repl \in BOOLEAN
InitLex   == /\ kind = "lexicase" /\ pop \in PopsOver(V2) /\ mini \in {<<FALSE, FALSE>>, <<TRUE, FALSE>>, <<TRUE, TRUE>>}
             /\ k \in 1..MaxPop /\ k <= Len(pop) /\ tsize = 0 /\ repl = FALSE
Init == /\ (InitElite \/ InitTour \/ InitLex)
        /\ cands = pop /\ parts = <<>> /\ order = <<>> /\ out = <<>> /\ pc = "run" /\ lastOK = TRUE

\* ---- elitism: sort (any stable-or-not order among equals), take the first k
SortedBy(s, better(_, _)) == {t \in {u \in [1..Len(s) -> RangeOf(s)] : SameBag(u, s)} :
                                 \A i \in 1..(Len(t) - 1) : ~better(t[i + 1], t[i])}
BestFirst(a, b) == AggOf(a.f, mini) > AggOf(b.f, mini)
WorstFirst(a, b) == AggOf(a.f, mini) < AggOf(b.f, mini)
Elite == /\ pc = "run" /\ kind = "elitism"
         /\ \E t \in (IF Order = "best-first" THEN SortedBy(pop, BestFirst) ELSE SortedBy(pop, WorstFirst)) :
               /\ out' = SubSeq(t, 1, k)
               /\ lastOK' = EliteOK(pop, SubSeq(t, 1, k), k, mini)
         /\ pc' = "done" /\ UNCHANGED <<kind, pop, mini, k, tsize, repl, cands, parts, order>>

\* ---- tournament (as coded: the candidate list is overwritten by the drawn sample)
Draw == /\ pc = "run" /\ kind = "tournament" /\ Len(out) < k /\ Len(parts) < tsize
        /\ \E i \in DOMAIN cands : parts' = Append(parts, cands[i])
        /\ UNCHANGED <<kind, pop, mini, k, tsize, repl, cands, order, out, pc, lastOK>>
TourWin == /\ pc = "run" /\ kind = "tournament" /\ Len(out) < k /\ Len(parts) = tsize
           /\ \E i \in DOMAIN parts :
                /\ \A j \in DOMAIN parts : AggOf(parts[j].f, mini) <= AggOf(parts[i].f, mini)
                /\ out' = Append(out, parts[i])
                /\ lastOK' = TournamentOK({pop[j].id : j \in DOMAIN pop}, parts, parts[i], mini)
                /\ cands' = IF repl THEN parts
                            ELSE LET rest == DropAt(parts, i) IN IF rest = <<>> THEN pop ELSE rest
           /\ parts' = <<>>
           /\ UNCHANGED <<kind, pop, mini, k, tsize, repl, order, pc>>

\* ---- lexicase: fresh shuffle per winner, filter, any survivor
Shuffle == /\ pc = "run" /\ kind = "lexicase" /\ Len(out) < k /\ order = <<>>
           /\ order' \in {<<1, 2>>, <<2, 1>>}
           /\ UNCHANGED <<kind, pop, mini, k, tsize, repl, cands, parts, out, pc, lastOK>>
LexWin == /\ pc = "run" /\ kind = "lexicase" /\ Len(out) < k /\ order # <<>>
          /\ LET sv == Survivors(cands, order, mini) IN
             \E i \in DOMAIN sv :
                /\ out' = Append(out, sv[i])
                /\ lastOK' = (LexicaseOK(cands, order, sv[i], mini) /\ \E j \in DOMAIN cands : cands[j].id = sv[i].id)
                /\ cands' = DropAt(cands, SMin({j \in DOMAIN cands : cands[j].id = sv[i].id}))
          /\ order' = <<>>
          /\ UNCHANGED <<kind, pop, mini, k, tsize, repl, parts, pc>>

Finish == /\ pc = "run" /\ kind # "elitism" /\ Len(out) = k /\ pc' = "done"
          /\ UNCHANGED <<kind, pop, mini, k, tsize, repl, cands, parts, order, out, lastOK>>

Next == Elite \/ Draw \/ TourWin \/ Shuffle \/ LexWin \/ Finish
Spec == Init /\ [][Next]_mvars

SelectionSound == lastOK
\* winners are members of the population, never more copies than it holds (lexicase / elitism)
OutMembers == /\ \A i \in DOMAIN out : \E j \in DOMAIN pop : pop[j].id = out[i].id
              /\ kind \in {"lexicase", "elitism"} =>
                    BagLeq([i \in DOMAIN out |-> out[i].id], [i \in DOMAIN pop |-> pop[i].id])
\* a lexicase winner is best on at least one case among the candidates still available
ExactlyK == pc = "done" => Len(out) = k
=============================================================================
