SPECIFICATION Spec
CONSTANT Dynamic = TRUE
CONSTANT Purity = "pure"
INVARIANT MapStable
INVARIANT MapDoesNotDraw
PROPERTY AppendOnly
CHECK_DEADLOCK FALSE
