SPECIFICATION Spec
CONSTANT Iteration = "set-order"
INVARIANT Agree
CHECK_DEADLOCK FALSE
