SPECIFICATION Spec
CONSTANT L1 = 7
CONSTANT L2 = 5
