------------------------------- MODULE MC_C06 -------------------------------
(***************************************************************************)
(* Model-level check for C06: for every pair of parents from the bounded   *)
(* language of small grammars, EVERY outcome of the declarative tree       *)
(* crossover TreeXO (a) is accepted by the linear-time recogniser IsRecomb *)
(* used on traces and (b) every type-respecting outcome stays in the       *)
(* language one level deeper (the lemma that makes "after any sequence of  *)
(* crossovers" in C01 a design fact); and the recogniser REJECTS offspring *)
(* that is not parental material (Variant = "fresh": a fresh tree).        *)
(* Linear / structured predicates are checked for all small gene vectors.  *)
(***************************************************************************)
EXTENDS GEVariation, GEFamilyDefs

CONSTANTS Bound, Variant
VARIABLES g, p1, p2, c
cvars == <<g, p1, p2, c>>

Gs == {MkG({1, 3}), MkG({1, 4}), MkG({1, 6}), MkG({1, 3, 7})}    \* Lit+Un, Lit+Bin, Lit+Ls1, Lit+Un+Uni
L(gr) == Lang(gr, StartForm(gr), Bound)

Init == /\ g \in Gs /\ p1 \in L(g) /\ p2 \in L(g)
        /\ c \in (IF Variant = "design" THEN TreeXO(p1, p2) ELSE L(g))
Next == UNCHANGED cvars
Spec == Init /\ [][Next]_cvars

RecogniserComplete == IsRecomb(p1, c, Subterms(p2))
TypedOffspringStaysInLanguage == WellTyped(c, StartForm(g), g) => Depth(c) <= 2 * Bound /\ (RefOK(p1, StartForm(g), g) /\ RefOK(p2, StartForm(g), g) => RefOK(c, StartForm(g), g))

Genes == 0..2
ASSUME LinearLemma == \A a \in [1..3 -> Genes], b \in [1..3 -> Genes], r \in 0..3 :
                  /\ LinearXOOK(a, b, [i \in 1..3 |-> IF i <= r THEN a[i] ELSE b[i]])        \* one-point crossover
                  /\ (r >= 1 => PointMutOK(a, [a EXCEPT ![r] = b[r]]))                         \* point mutation
                  /\ (Hamming(a, b) >= 2 => ~PointMutOK(a, b))
=============================================================================
