------------------------------ MODULE Trace_Steps ------------------------------
(***************************************************************************)
(* Trace validation for the step algebra: C15 (population size), C16       *)
(* (elitism), C17 (tournament / lexicase selection).  Events come from     *)
(* REAL step objects (Probe-wrapped) applied to real populations; see      *)
(* harness/drv_steps.py.  Batch.meta.prop selects the property.            *)
(***************************************************************************)
EXTENDS GESteps, TraceKit

Prop == Batch.meta.prop

Sign(a, b) == IF a > b THEN "over" ELSE "under"

-----------------------------------------------------------------------------
(* C15 *)
C15Clause(ev) ==
    CASE ev.e \in {"step", "apply"} ->
           IF ev.in_len < ev.k THEN "ok"                     \* the property only speaks of inputs >= k
           ELSE IF ev.exc # "" THEN "C15:step-raises"
           ELSE IF ev.complete /\ ev.out_len # ev.k THEN "C15:out-len"
           ELSE "ok"
      [] ev.e = "generation" -> IF ev.size # ev.n THEN "C15:generation-size" ELSE "ok"
      [] ev.e = "runfail" -> "C15:run-raises"
      [] ev.e = "init" -> IF ev.exc # "" THEN "C15:init-raises"
                          ELSE IF ev.out_len # ev.k THEN "C15:init-len" ELSE "ok"
      [] OTHER -> "ok"

InjRel(ev) == IF ev.injected < 0 THEN "-" ELSE IF ev.injected = 0 THEN "injected=0"
              ELSE IF ev.injected < ev.k THEN "0<injected<k" ELSE IF ev.injected = ev.k THEN "injected=k" ELSE "injected>k"
C15Attrs(ev) ==
    CASE ev.e = "step"  -> IF ev.exc # "" THEN <<ev.kind, ev.in_kind, ev.exc>> ELSE <<ev.kind, ev.in_kind, Sign(ev.out_len, ev.k)>>
      [] ev.e = "apply" -> IF ev.exc # "" THEN <<"top", ev.in_kind, ev.exc>> ELSE <<"top", ev.in_kind, Sign(ev.out_len, ev.k)>>
      [] ev.e = "generation" -> <<IF ev.g = 0 THEN "initial" ELSE "later", Sign(ev.size, ev.n)>>
      [] ev.e = "runfail" -> <<ev.exc>>
      [] ev.e = "init" -> IF ev.exc # "" THEN <<ev.kind, InjRel(ev), ev.exc>> ELSE <<ev.kind, InjRel(ev), Sign(ev.out_len, ev.k)>>
      [] OTHER -> <<>>

-----------------------------------------------------------------------------
(* C16 *)
Ids(s) == [i \in DOMAIN s |-> s[i].id]
EliteClause(ev) ==
    IF ev.exc # "" THEN "C16:elitism-raises"
    ELSE IF Len(ev.out) # MinOf(ev.k, Len(ev.pop)) THEN "C16:elite-count"
    ELSE IF ~BagLeq(Ids(ev.out), Ids(ev.pop)) THEN "C16:not-member"
    ELSE IF ~EliteOK(ev.pop, ev.out, ev.k, ev.mini) THEN "C16:excluded-better"
    ELSE "ok"

\* st.prevbest: best aggregate of the previous generation (st.has)
C16Clause(s, ev) ==
    CASE ev.e = "elite" -> EliteClause(ev)
      \* antecedent: the composition reserved >= 1 elite slot; an ExclusiveParallelStep shows the elitism step only a
      \* slice by design, there the whole previous generation must have been shown to it for the clause to apply
      [] ev.e = "genfit" -> IF s.has /\ ev.elite_slots >= 1 /\ (Cfg.exclusive => ev.elite_in >= Cfg.n) /\ SeqMax(ev.fits) < s.prevbest
                            THEN "C16:best-regressed" ELSE "ok"
      [] ev.e = "runfail" -> "C16:run-raises"
      [] OTHER -> "ok"
C16Attrs(s, ev) ==
    CASE ev.e = "elite" -> <<ev.in_kind, IF ev.mini[1] THEN "minimise" ELSE "maximise", IF ev.exc # "" THEN ev.exc ELSE "-">>
      [] ev.e = "genfit" -> <<Cfg.name>>
      [] ev.e = "runfail" -> <<ev.exc>>
      [] OTHER -> <<>>

-----------------------------------------------------------------------------
(* C17 *)
\* epsilon-lexicase: keep the candidates within the median absolute deviation of the best;
\* computed exactly in units of 1/4 (Median2 doubles, applied twice)
Median2(s) == LET t == SortSeq(s, LAMBDA a, b : a < b)  n == Len(t)
              IN IF n % 2 = 1 THEN 2 * t[(n + 1) \div 2] ELSE t[n \div 2] + t[(n \div 2) + 1]
MAD4(vals) == LET med2 == Median2(vals) IN Median2([i \in DOMAIN vals |-> Abs(2 * vals[i] - med2)])
BestOnEps(cands, c, mini) ==
    LET vals == [i \in DOMAIN cands |-> cands[i].f[c]]
        best == IF mini[c] THEN SeqMin(vals) ELSE SeqMax(vals)
        mad4 == MAD4(vals)
    IN SelectSeq(cands, LAMBDA x : IF mini[c] THEN 4 * x.f[c] <= 4 * best + mad4 ELSE 4 * x.f[c] >= 4 * best - mad4)
RECURSIVE SurvivorsE(_, _, _, _)
SurvivorsE(cands, order, mini, eps) ==
    IF Len(cands) <= 1 \/ order = <<>> THEN cands
    ELSE SurvivorsE(IF eps THEN BestOnEps(cands, Head(order), mini) ELSE BestOn(cands, Head(order), mini),
                    Tail(order), mini, eps)

Sel0 == [kind |-> "none", pop |-> <<>>, mini |-> <<>>, eps |-> FALSE, cands |-> <<>>, parts |-> <<>>,
         orders |-> <<>>, has |-> FALSE, prevbest |-> 0, wins |-> 0]

RemoveOne(s, id) == LET k == SMin({i \in DOMAIN s : s[i].id = id}) IN DropAt(s, k)

SurvivesFor(s, w, order) == \E i \in DOMAIN SurvivorsE(s.cands, order, s.mini, s.eps) :
                                SurvivorsE(s.cands, order, s.mini, s.eps)[i].id = w.id
UsableOrders(s, w) == {k \in DOMAIN s.orders : SurvivesFor(s, w, s.orders[k])}

BestOnSomeCase(s, w) == \E c \in DOMAIN s.mini : SurvivesFor(s, w, <<c>>)
\* a case order is an order of ALL the cases
IsCaseOrder(s, order) == Len(order) = Len(s.mini) /\ {order[i] : i \in DOMAIN order} = DOMAIN s.mini

WinClause(s, ev) ==
    LET w == ev.ind IN
    IF s.kind = "tournament" THEN
        IF ~(\E i \in DOMAIN s.pop : s.pop[i].id = w.id) THEN "C17:not-member"
        ELSE IF ~(\E i \in DOMAIN s.parts : s.parts[i].id = w.id) THEN "C17:winner-not-a-participant"
        ELSE IF \E i \in DOMAIN s.parts : AggOf(s.parts[i].f, s.mini) > AggOf(w.f, s.mini) THEN "C17:winner-beaten"
        ELSE "ok"
    ELSE
        IF ~(\E i \in DOMAIN s.pop : s.pop[i].id = w.id) THEN "C17:not-member"
        ELSE IF ~(\E i \in DOMAIN s.cands : s.cands[i].id = w.id) THEN "C17:too-many-copies"
        \* some shuffled order that has not served an earlier winner (orders may also be drawn in advance)
        ELSE IF Len(s.cands) > 1 /\ Len(s.mini) > 0 /\ s.orders = <<>> THEN "C17:no-fresh-shuffle"
        ELSE IF Len(s.cands) > 1 /\ Len(s.mini) > 0 /\ UsableOrders(s, w) = {} THEN "C17:not-survivor"
        \* "in particular": best (or within the epsilon band) on at least one case among the candidates still available
        ELSE IF Len(s.cands) > 1 /\ Len(s.mini) > 0 /\ ~BestOnSomeCase(s, w) THEN "C17:best-on-no-case"
        ELSE "ok"

C17Clause(s, ev) ==
    CASE ev.e = "win" -> WinClause(s, ev)
      [] ev.e = "shuffle" -> IF s.kind = "lexicase" /\ ~IsCaseOrder(s, ev.order) THEN "C17:case-order-incomplete" ELSE "ok"
      [] ev.e = "selend" -> IF ev.exc # "" THEN "C17:selection-raises" ELSE "ok"
      [] OTHER -> "ok"
C17Attrs(s, ev) ==
    CASE ev.e = "win" -> <<s.kind, IF s.wins = 0 THEN "first-winner" ELSE "later-winner", IF s.eps THEN "epsilon" ELSE "plain">>
      [] ev.e = "selend" -> <<s.kind, ev.exc>>
      [] ev.e = "shuffle" -> <<s.kind, IF s.wins = 0 THEN "first-winner" ELSE "later-winner">>
      [] OTHER -> <<>>

Eff(s, ev) ==
    CASE ev.e = "selstart" -> [Sel0 EXCEPT !.kind = ev.kind, !.pop = ev.pop, !.mini = ev.mini,
                                            !.eps = (ev.kind = "lexicase" /\ ev.eps), !.cands = ev.pop]
      [] ev.e = "draw"    -> [s EXCEPT !.parts = Append(s.parts, ev.ind)]
      [] ev.e = "shuffle" -> [s EXCEPT !.orders = Append(s.orders, ev.order)]
      [] ev.e = "win"     -> [s EXCEPT !.parts = <<>>, !.wins = s.wins + 1,
                                       !.orders = IF s.kind = "lexicase" /\ s.orders # <<>>
                                                  THEN (IF UsableOrders(s, ev.ind) # {} THEN DropAt(s.orders, SMin(UsableOrders(s, ev.ind)))
                                                        ELSE Tail(s.orders))
                                                  ELSE s.orders,
                                       !.cands = IF s.kind = "lexicase" /\ (\E i \in DOMAIN s.cands : s.cands[i].id = ev.ind.id)
                                                 THEN RemoveOne(s.cands, ev.ind.id) ELSE s.cands]
      [] ev.e = "genfit"  -> [s EXCEPT !.has = TRUE, !.prevbest = SeqMax(ev.fits)]
      [] OTHER -> s

Clause(s, ev) == CASE Prop = "C15" -> C15Clause(ev) [] Prop = "C16" -> C16Clause(s, ev) [] Prop = "C17" -> C17Clause(s, ev) [] OTHER -> "ok"
Attrs(s, ev)  == CASE Prop = "C15" -> C15Attrs(ev)  [] Prop = "C16" -> C16Attrs(s, ev)  [] Prop = "C17" -> C17Attrs(s, ev)  [] OTHER -> <<>>

TInit   == tid \in 1..NTraces /\ InitWith(Sel0)
TNext   == Step(Clause(st, Ev), Attrs(st, Ev), Eff(st, Ev))
TSpec   == TInit /\ [][TNext]_tvars
Collect == CollectWith("ok")
=============================================================================
