SPECIFICATION Spec
CONSTANT Pairing = "completion"
INVARIANT ParallelEqualsSequential
CHECK_DEADLOCK FALSE
