SPECIFICATION Spec
CONSTANT ResetPerRule = TRUE
INVARIANT NonNegative
INVARIANT SumToOne
INVARIANT RatiosKept
INVARIANT Idempotent
CHECK_DEADLOCK FALSE
