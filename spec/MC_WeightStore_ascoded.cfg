SPECIFICATION Spec
CONSTANTS
  Classes = {"a", "b", "c"}
  Raw = {0, 1, 10}
  Basis = "stored"
  MaxSteps = 5
CONSTRAINT Bounded
INVARIANT SumOne
INVARIANT RatioKept
PROPERTY Idempotent
CHECK_DEADLOCK FALSE
