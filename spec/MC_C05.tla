------------------------------- MODULE MC_C05 -------------------------------
(***************************************************************************)
(* Model-level check for C05: the analysis operators of GEGrammar          *)
(* (MinDepth, Recursive, Reachable) are validated against the property's   *)
(* OWN definitions, evaluated on the enumerated bounded language:          *)
(*   MinDepth[c]  = depth of the shallowest term in Lang(c, bound)         *)
(*   Recursive(c) <=> some term derivable from c properly contains a node  *)
(*                    derivable from c                                     *)
(* TLC enumerates a family of grammars: every subset (<= MaxProds) of a    *)
(* pool of productions over two abstract types, one state per grammar.     *)
(***************************************************************************)
EXTENDS GEFamily

CONSTANTS MaxProds, Bound, PoolIdx, NeedWitness

VARIABLE chosen      \* set of pool indices: the productions of this grammar
vars == <<chosen>>

G == MkG(chosen)

Init == chosen \in {S \in SUBSET PoolIdx : Cardinality(S) <= MaxProds /\ S # {} /\ Closed(S)}
Next == UNCHANGED chosen
Spec == Init /\ [][Next]_vars

-----------------------------------------------------------------------------
SymForm(c) == Sym(c)
LangOf(c) == Lang(G, SymForm(c), Bound)

\* exact minimum depth by enumeration (only meaningful below the bound)
EnumMin(c) == IF LangOf(c) = {} THEN INF ELSE SMin({Depth(t) : t \in LangOf(c)})

MinDepthExact ==
    \A c \in Names(G) :
        LET m == MinDepth(G)[c] IN
           IF m <= Bound THEN EnumMin(c) = m ELSE LangOf(c) = {}

\* proper sub-terms
RECURSIVE SubTerms(_)
SubTerms(t) == UNION {{t.kids[i]} \cup SubTerms(t.kids[i]) : i \in DOMAIN t.kids}
\* judged on concrete classes, where 'contains itself' is unambiguous on terms: a node of class c
\* properly containing a node of class c
Derivable(t, c) == t.k = "node" /\ t.ty = c

\* c can derive a program properly containing a program derivable from c.
\* Witnesses of self-containment need at most 2 * (longest acyclic chain) levels; the bound is
\* chosen so that every productive recursive symbol of the pool has a witness below it.
EnumRecursive(c) == \E t \in LangOf(c) : \E u \in SubTerms(t) : Derivable(u, c)

Productive(c) == MinDepth(G)[c] < INF
RecursiveExact ==
    \A c \in {x \in Names(G) : ~IsAbs(G, x)} :
        (Productive(c) /\ \A x \in ReachableFrom(G, c) \cap Names(G) : Productive(x))
            => /\ EnumRecursive(c) => Recursive(G, c)
               /\ (NeedWitness /\ Recursive(G, c)) => EnumRecursive(c)

\* reachability: every class occurring in a program of the language is reachable, and every
\* reachable productive class occurs in some program within the bound
RECURSIVE ClassesIn(_)
ClassesIn(t) == (IF t.k = "node" THEN {t.ty} ELSE {}) \cup UNION {ClassesIn(t.kids[i]) : i \in DOMAIN t.kids}
ReachableSound == \A t \in LangOf("E") : ClassesIn(t) \subseteq Reachable(G)

AnalysisExact == MinDepthExact /\ RecursiveExact /\ ReachableSound
=============================================================================
