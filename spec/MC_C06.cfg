SPECIFICATION Spec
CONSTANT Bound = 2
CONSTANT Variant = "design"
INVARIANT RecogniserComplete
INVARIANT TypedOffspringStaysInLanguage
CHECK_DEADLOCK FALSE
