SPECIFICATION Spec
CONSTANT MaxProds = 4
CONSTANT Bound = 5
CONSTANT PoolIdx = {1,2,3,7,9,10,11,12}
CONSTANT NeedWitness = TRUE
INVARIANT MinDepthExact
INVARIANT RecursiveExact
INVARIANT ReachableSound
CHECK_DEADLOCK FALSE
