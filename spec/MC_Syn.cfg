SPECIFICATION Spec
CONSTANT MaxProds = 3
CONSTANT PoolIdx = {1,2,3,4,6,7,8,9,10,11,12}
CONSTANT Deciders = {"grow", "full", "pigrow"}
CONSTANT Offsets <- OffsetsAround
CONSTANT Dev <- DevNone
CONSTANT MaxPlainLen = 2
INVARIANT WellTypedWhenDone
INVARIANT DepthOK
INVARIANT NoStuck
INVARIANT RejectedOnlyBelowMin
INVARIANT MachineAgrees
INVARIANT InsideLang
INVARIANT GrowExact
PROPERTY GrammarReadOnly
CHECK_DEADLOCK FALSE
