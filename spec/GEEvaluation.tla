---------------------------- MODULE GEEvaluation ----------------------------
(***************************************************************************)
(* Problems, fitness, evaluators, progress trackers, budgets               *)
(* (geneticengine/problems, evaluation/{api,sequential,tracker,budget}.py, *)
(* solutions/individual.py).                                               *)
(*                                                                         *)
(* Everything is written as pure operators over an explicit tracker-state  *)
(* record so that the model-checking specification (MC_Search) and the     *)
(* trace specification (Trace_Search) share one definition of every rule.  *)
(*                                                                         *)
(* A fitness value is a sequence of integer components (drivers use        *)
(* integer-valued fitness functions, so aggregates are exact).             *)
(* Mini is the sequence of per-component "minimise" flags.                 *)
(***************************************************************************)
EXTENDS GEBase

\* maximising aggregate: v, -v, or sum of components with the minimised ones negated
Agg(comps, mini) == SeqSum([k \in DOMAIN comps |-> IF mini[k] THEN -comps[k] ELSE comps[k]])

Better(a, b, mini)   == Agg(a, mini) > Agg(b, mini)       \* Problem.is_better: STRICT

-----------------------------------------------------------------------------
(* Tracker state.                                                           *)
(*   fit    : individual id -> recorded fitness components (fitness_store)  *)
(*   count  : evaluator counter        ffn : fitness-function invocations   *)
(*   inv    : individual id -> number of invocations for it                 *)
(*   best   : id of the tracker's best individual (0 = none)                *)
(*   front  : sequence of ids (multi-objective tracker)                     *)
(*   seen   : 0 until the first individual is post-processed, then 1        *)
(*   maxagg : best aggregate among all individuals evaluated so far         *)

T0 == [fit |-> <<>>, ids |-> {}, count |-> 0, ffn |-> 0, inv |-> <<>>, best |-> 0, front |-> <<>>,
       seen |-> 0, hasmax |-> FALSE, maxagg |-> 0]

HasFit(s, i) == i \in s.ids
FitOf(s, i)  == s.fit[i]

\* functions as sets of pairs would be heavy; ids are 1..n so sequences-with-holes are
\* represented as functions over the set s.ids
SetFn(f, dom, i, v) == [j \in dom \cup {i} |-> IF j = i THEN v ELSE f[j]]

\* SequentialEvaluator.evaluate_async for one individual: evaluate only if not yet evaluated;
\* v is what the fitness function returns for this individual's program
EvalOne(s, i, v, mini) ==
    IF HasFit(s, i) THEN s
    ELSE [s EXCEPT !.fit = SetFn(s.fit, s.ids, i, v), !.ids = s.ids \cup {i},
                   !.count = s.count + 1, !.ffn = s.ffn + 1,
                   !.inv = SetFn(s.inv, DOMAIN s.inv, i, (IF i \in DOMAIN s.inv THEN s.inv[i] ELSE 0) + 1),
                   !.hasmax = TRUE,
                   !.maxagg = IF ~s.hasmax \/ Agg(v, mini) > s.maxagg THEN Agg(v, mini) ELSE s.maxagg]

\* SingleObjectiveProgressTracker.post_process: is this individual a new best?
IsNewBest(s, i, mini) == s.best = 0 \/ Better(FitOf(s, i), FitOf(s, s.best), mini)
PostSingle(s, i, mini) ==
    [s EXCEPT !.best = IF IsNewBest(s, i, mini) THEN i ELSE s.best, !.seen = 1]

\* MultiObjectiveProgressTracker.evaluate (per yielded individual)
AllBetter(s, members, i, mini) == \A k \in DOMAIN members : Better(FitOf(s, members[k]), FitOf(s, i), mini)
NotDominated(s, i, mini) == s.front = <<>> \/ ~AllBetter(s, s.front, i, mini)
PostMulti(s, i, mini) ==
    IF NotDominated(s, i, mini)
    THEN [s EXCEPT !.front = <<i>> \o SelectSeq(s.front, LAMBDA o : ~Better(FitOf(s, i), FitOf(s, o), mini)),
                   !.seen = 1]
    ELSE [s EXCEPT !.seen = 1]

-----------------------------------------------------------------------------
(* Properties of the tracker state (C12, C13).                              *)

\* C12: nobody evaluated is strictly better than the reported best
BestIsBest(s, mini) ==
    s.ids # {} => /\ s.best \in s.ids
                  /\ \A j \in s.ids : ~Better(FitOf(s, j), FitOf(s, s.best), mini)
\* equivalently: the best attains the best aggregate seen so far
BestAttainsMax(s, mini) == s.best # 0 => Agg(FitOf(s, s.best), mini) = s.maxagg

\* C12 (multi): every member of the front attains the best aggregate seen so far
FrontAttainsMax(s, mini) == \A k \in DOMAIN s.front : Agg(FitOf(s, s.front[k]), mini) = s.maxagg

\* C12: the is_best flag a recorder must be given for individual i, judged BEFORE post-processing:
\* first registration, or strictly better than everything evaluated before it
FlagExpected(sBefore, i, v, mini, firstEver) == firstEver \/ Agg(v, mini) > sBefore.maxagg

\* C13: at most once, counted honestly
AtMostOnce(s)  == \A i \in DOMAIN s.inv : s.inv[i] <= 1
CountHonest(s) == s.count = s.ffn

-----------------------------------------------------------------------------
(* Budgets (evaluation/budget.py).  Target tolerance is an order fact: the  *)
(* driver passes the best component and the two thresholds rank-encoded,    *)
(* the model uses integers with tolerance 1 (|c - t| < 1  <=>  c = t).      *)
EvalBudgetDone(count, n)       == count >= n
TargetDone(hasBest, c, lo, hi) == hasBest /\ lo < c /\ c < hi          \* |c - t| < tol  <=>  t-tol < c < t+tol
=============================================================================
