------------------------------ MODULE Trace_C09 ------------------------------
(***************************************************************************)
(* Trace validation for C09 against GEHeap's Monotone rule.  The recorder  *)
(* keeps a registry of every object it has ever seen (numbered by first    *)
(* appearance, strong references held); an event carries structural        *)
(* snapshots of objects:                                                   *)
(*   snap [op, objs]   objs = sequence of [id, kind, t, genes, fits, ph]   *)
(*     t      program term with all gengy_* labels and synthesis contexts  *)
(*     genes  genotype genes (sequence over keys of [has, g], raw values   *)
(*            rank-encoded per trace)                                      *)
(*     fits   cached fitness entries [p, comps] in insertion order         *)
(*     ph     phenotype cached                                             *)
(* The abstract state is the registry id -> snapshot.  An object seen      *)
(* again must equal its registered snapshot except for the monotone fills  *)
(* (more fitness entries, phenotype cache filled).                         *)
(***************************************************************************)
EXTENDS GEMeta, TraceKit

Put(f, k, v) == [j \in DOMAIN f \cup {k} |-> IF j = k THEN v ELSE f[j]]

RECURSIVE Strip(_)
Strip(t) == [t EXCEPT !.m = NoMeta, !.kids = [i \in DOMAIN t.kids |-> Strip(t.kids[i])]]

Changed(old, new) ==
    IF new.kind # old.kind THEN "kind"
    ELSE IF Strip(new.t) # Strip(old.t) THEN "program"
    ELSE IF new.t # old.t THEN "node-metadata"
    ELSE IF new.genes # old.genes THEN "genes"
    ELSE IF ~IsPrefixOf(old.fits, new.fits) THEN "cached-fitness"
    ELSE IF old.ph /\ ~new.ph THEN "phenotype-cache"
    ELSE "-"

\* a snapshot may say which objects were EVALUATED since the previous one (evald, object ids): nobody else may gain a
\* fitness entry - an offspring that shares its fitness cache with a parent hands the parent whatever it is scored with later
ChangedE(ev, old, new) ==
    IF Changed(old, new) # "-" THEN Changed(old, new)
    ELSE IF "evald" \in DOMAIN ev /\ new.fits # old.fits /\ ~(\E k \in DOMAIN ev.evald : ev.evald[k] = new.id) THEN "cached-fitness-shared"
    ELSE "-"
BadObjs(reg, ev) == {i \in DOMAIN ev.objs : ev.objs[i].id \in DOMAIN reg /\ ChangedE(ev, reg[ev.objs[i].id], ev.objs[i]) # "-"}

\* "given": the list object handed to a step, as sequences of object ids before and after the step ran
Clause(reg, ev) == IF ev.e = "snap" /\ BadObjs(reg, ev) # {} THEN "C09:input-modified"
                   ELSE IF ev.e = "given" /\ ev.before # ev.after THEN "C09:input-modified" ELSE "ok"
Attrs(reg, ev) ==
    IF ev.e = "snap" /\ BadObjs(reg, ev) # {}
    THEN LET i == SMin(BadObjs(reg, ev)) IN <<ev.objs[i].kind, ChangedE(ev, reg[ev.objs[i].id], ev.objs[i]), Cfg.rep>>
    ELSE <<>>

RECURSIVE PutAll(_, _, _)
PutAll(reg, objs, i) == IF i > Len(objs) THEN reg ELSE PutAll(Put(reg, objs[i].id, objs[i]), objs, i + 1)
Eff(reg, ev) == IF ev.e = "snap" THEN PutAll(reg, ev.objs, 1) ELSE reg

TInit   == tid \in 1..NTraces /\ InitWith(<<>>)
TNext   == Step(Clause(st, Ev), Attrs(st, Ev), Eff(st, Ev))
TSpec   == TInit /\ [][TNext]_tvars
Collect == CollectWith("ok")
=============================================================================
