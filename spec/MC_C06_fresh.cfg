SPECIFICATION Spec
CONSTANT Bound = 2
CONSTANT Variant = "fresh"
INVARIANT RecogniserComplete
INVARIANT TypedOffspringStaysInLanguage
CHECK_DEADLOCK FALSE
