SPECIFICATION Spec
CONSTANT Discipline = "write-in-place"
PROPERTY HeapAppendOnly
CHECK_DEADLOCK FALSE
