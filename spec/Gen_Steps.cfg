SPECIFICATION Spec
CONSTANT Split = "design"
CONSTANT Sizes = {2}
CONSTANT Weights = {0, 1, 2}
CONSTANT Gens = 0
CONSTANT NDeep = 400
CHECK_DEADLOCK FALSE
