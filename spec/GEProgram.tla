------------------------------ MODULE GEProgram ------------------------------
(***************************************************************************)
(* Programs (derivation trees) as terms, and the predicates of properties  *)
(* C01 (well-typed), C02 (refinements), C03 (depth), C04 (bounded          *)
(* language) evaluated on them.                                            *)
(*                                                                         *)
(* A term is [k, ty, iv, cs, kids, m]:                                     *)
(*   k = "node"   ty = class name, kids = field values in declared order   *)
(*   k = "list"   kids = elements        k = "tuple"  kids = components    *)
(*   k = "val"    ty = exact Python type name, iv = int value (floats are  *)
(*                rank-encoded), cs = code points of a string              *)
(*   k = "foreign" anything else (generator objects, missing fields, ...)  *)
(* m carries the gengy_* labels when they were recorded (property C11).    *)
(***************************************************************************)
EXTENDS GEGrammar

NoMeta == [has |-> FALSE]
Node(ty, kids)  == [k |-> "node",  ty |-> ty,      iv |-> 0,  cs |-> <<>>, kids |-> kids, m |-> NoMeta]
ListT(kids)     == [k |-> "list",  ty |-> "list",  iv |-> 0,  cs |-> <<>>, kids |-> kids, m |-> NoMeta]
TupleT(kids)    == [k |-> "tuple", ty |-> "tuple", iv |-> 0,  cs |-> <<>>, kids |-> kids, m |-> NoMeta]
IntV(v)         == [k |-> "val",   ty |-> "int",   iv |-> v,  cs |-> <<>>, kids |-> <<>>, m |-> NoMeta]
BoolV(b)        == [k |-> "val",   ty |-> "bool",  iv |-> b,  cs |-> <<>>, kids |-> <<>>, m |-> NoMeta]
StrV(cs)        == [k |-> "val",   ty |-> "str",   iv |-> Len(cs), cs |-> cs, kids |-> <<>>, m |-> NoMeta]

-----------------------------------------------------------------------------
(* C03: depth = longest chain of nested grammar nodes.                      *)
RECURSIVE Depth(_)
Depth(t) == LET below == SMax({Depth(t.kids[i]) : i \in DOMAIN t.kids} \cup {0})
            IN IF t.k = "node" THEN 1 + below ELSE below

RECURSIVE Size(_)
Size(t) == 1 + SeqSum([i \in DOMAIN t.kids |-> Size(t.kids[i])])

-----------------------------------------------------------------------------
(* C01: well-typedness.  Mismatch returns <<>> when t has the declared      *)
(* form f, else a signature <<declared form kind, observed kind, observed   *)
(* type>> for the first offending position (depth-first).                   *)

FormTag(f) == IF f.k \in {"base", "sym"} THEN f.k \o ":" \o f.s ELSE f.k

RECURSIVE Mismatch(_, _, _)
FirstBad(t, fs, G) ==       \* first mismatch among kids against forms fs (same length)
    LET bads == {i \in DOMAIN fs : Mismatch(t.kids[i], fs[i], G) # <<>>}
    IN IF bads = {} THEN <<>> ELSE Mismatch(t.kids[SMin(bads)], fs[SMin(bads)], G)

Mismatch(t, f, G) ==
    CASE f.k = "base" ->
           IF t.k = "val" /\ t.ty = f.s THEN <<>> ELSE <<FormTag(f), t.k, t.ty>>
      [] f.k = "sym" ->
           IF t.k # "node" THEN <<"sym", t.k, t.ty>>
           ELSE IF ~Known(G, t.ty) THEN <<"sym", "node-unknown-class", t.ty>>
           ELSE IF IsAbs(G, t.ty) THEN <<"sym", "node-abstract-class", t.ty>>
           ELSE IF ~IsBelow(G, t.ty, f.s) THEN <<"sym", "node-not-a-production", t.ty>>
           ELSE IF Len(t.kids) # Len(Fields(G, t.ty)) THEN <<"sym", "node-arity", t.ty>>
           ELSE FirstBad(t, [i \in DOMAIN t.kids |-> Fields(G, t.ty)[i].f], G)
      [] f.k = "list" ->
           IF t.k # "list" THEN <<"list", t.k, t.ty>>
           ELSE FirstBad(t, [i \in DOMAIN t.kids |-> f.es[1]], G)
      [] f.k = "tuple" ->
           IF t.k # "tuple" THEN <<"tuple", t.k, t.ty>>
           ELSE IF Len(t.kids) # Len(f.es) THEN <<"tuple", "tuple-arity", t.ty>>
           ELSE FirstBad(t, f.es, G)
      [] f.k = "union" ->
           IF \E i \in DOMAIN f.es : Mismatch(t, f.es[i], G) = <<>> THEN <<>>
           ELSE <<"union", t.k, t.ty>>
      [] f.k = "ann" -> Mismatch(t, f.es[1], G)
      [] OTHER -> <<"unsupported-form", t.k, t.ty>>

WellTyped(t, f, G) == Mismatch(t, f, G) = <<>>

StartForm(G) == [k |-> "sym", s |-> G.start, es |-> <<>>, mh |-> [k |-> "none"]]

RECURSIVE HasForeign(_)
HasForeign(t) == t.k = "foreign" \/ \E i \in DOMAIN t.kids : HasForeign(t.kids[i])
RECURSIVE ForeignType(_)
ForeignType(t) == IF t.k = "foreign" THEN t.ty
                  ELSE LET bad == {i \in DOMAIN t.kids : HasForeign(t.kids[i])}
                       IN IF bad = {} THEN "" ELSE ForeignType(t.kids[SMin(bad)])

-----------------------------------------------------------------------------
(* C02: refinements.  MhOK(t, mh, sibs) is the documented predicate of each *)
(* shipped metahandler; sibs maps the names of the already-built sibling    *)
(* fields to their terms (dependent refinements).                           *)

InSeq(x, s) == \E i \in DOMAIN s : s[i] = x

DepMh(mh, sibs) ==      \* the refinement a Dependent handler denotes, given the actual siblings
    CASE mh.fn = "IntRangeFrom" -> [k |-> "IntRange", lo |-> sibs[mh.deps[1]].iv, hi |-> mh.K]
      [] mh.fn = "IntRangeTo"   -> [k |-> "IntRange", lo |-> mh.K, hi |-> sibs[mh.deps[1]].iv]
      [] mh.fn = "IntRangeWindow" -> [k |-> "IntRange", lo |-> sibs[mh.deps[2]].iv,
                                      hi |-> sibs[mh.deps[2]].iv + sibs[mh.deps[1]].iv]   \* Dependent("scale,offset", ..)
      [] mh.fn = "ListSizeEq"   -> [k |-> "ListSize", lo |-> sibs[mh.deps[1]].iv, hi |-> sibs[mh.deps[1]].iv]
      [] OTHER -> [k |-> "none"]

RECURSIVE MhOK(_, _, _)
MhOK(t, mh, sibs) ==
    CASE mh.k = "IntRange"   -> t.k = "val" /\ mh.lo <= t.iv /\ t.iv <= mh.hi
      [] mh.k = "IntList"    -> t.k = "val" /\ InSeq(t.iv, mh.vals)
      [] mh.k = "FloatRange" -> t.k = "val" /\ mh.lo <= t.iv /\ t.iv <= mh.hi       \* ranks
      [] mh.k = "FloatList"  -> t.k = "val" /\ InSeq(t.iv, mh.vals)
      [] mh.k = "VarRange"   -> t.k = "val" /\ InSeq(t.cs, mh.opts)
      [] mh.k = "ListSize"   -> t.k = "list" /\ mh.lo <= Len(t.kids) /\ Len(t.kids) <= mh.hi
      [] mh.k = "StrSize"    -> /\ t.k = "val" /\ mh.lo <= Len(t.cs) /\ Len(t.cs) <= mh.hi
                                /\ \A i \in DOMAIN t.cs : InSeq(t.cs[i], mh.alpha)
      [] mh.k = "WeightedStr" -> /\ t.k = "val" /\ Len(t.cs) = mh.rows
                                 /\ \A i \in DOMAIN t.cs : InSeq(t.cs[i], mh.alpha)
                                 \* a letter whose declared probability at a position is zero never stands there
                                 /\ \A i \in DOMAIN t.cs : ~InSeq(t.cs[i], mh.forbid[i])
      [] mh.k = "Interval"   -> /\ t.k = "tuple" /\ Len(t.kids) = 2
                                /\ LET a == t.kids[1].iv  b == t.kids[2].iv
                                   IN /\ 0 <= a /\ mh.minl <= b - a /\ b - a <= mh.maxl /\ b <= mh.top
      [] mh.k = "Dependent"  -> MhOK(t, DepMh(mh, sibs), sibs)
      [] OTHER -> TRUE       \* unknown / custom handlers: no documented predicate to check

\* first refinement violation in t against form f: <<metahandler kind, position kind>> or <<>>
RECURSIVE RefBad(_, _, _, _, _)
RefBadKids(t, fs, names, G, where) ==
    LET sibsUpTo(i) == [n \in {names[j] : j \in 1..(i - 1)} |->
                          t.kids[CHOOSE j \in 1..(i - 1) : names[j] = n]]
        bads == {i \in DOMAIN fs : RefBad(t.kids[i], fs[i], G, sibsUpTo(i), where) # <<>>}
    IN IF bads = {} THEN <<>>
       ELSE RefBad(t.kids[SMin(bads)], fs[SMin(bads)], G, sibsUpTo(SMin(bads)), where)

RefBad(t, f, G, sibs, where) ==
    CASE f.k = "ann" ->
           IF ~MhOK(t, f.mh, sibs) THEN <<f.mh.k, where>>
           ELSE RefBad(t, f.es[1], G, sibs, where)
      [] f.k = "sym" ->
           IF t.k # "node" \/ ~Known(G, t.ty) \/ Len(t.kids) # Len(Fields(G, t.ty)) THEN <<>>   \* C01's business
           ELSE RefBadKids(t, [i \in DOMAIN t.kids |-> Fields(G, t.ty)[i].f],
                           [i \in DOMAIN t.kids |-> Fields(G, t.ty)[i].n], G, "field")
      [] f.k = "list" ->
           IF t.k # "list" THEN <<>>
           ELSE RefBadKids(t, [i \in DOMAIN t.kids |-> f.es[1]], [i \in DOMAIN t.kids |-> "_"], G, "in-list")
      [] f.k = "tuple" ->
           IF t.k # "tuple" \/ Len(t.kids) # Len(f.es) THEN <<>>
           ELSE RefBadKids(t, f.es, [i \in DOMAIN t.kids |-> "_"], G, "in-tuple")
      [] f.k = "union" ->
           LET ok == {i \in DOMAIN f.es : Mismatch(t, f.es[i], G) = <<>>}
           IN IF ok = {} THEN <<>>
              ELSE IF \E i \in ok : RefBad(t, f.es[i], G, sibs, "in-union") = <<>> THEN <<>>
              ELSE RefBad(t, f.es[SMin(ok)], G, sibs, "in-union")
      [] OTHER -> <<>>

RefOK(t, f, G) == RefBad(t, f, G, <<>>, "top") = <<>>

-----------------------------------------------------------------------------
(* C04: the bounded language, declaratively (no decider, no distances):     *)
(* every well-typed, refinement-satisfying term of depth <= d.  Only for    *)
(* finite-choice forms (refined base values, symbols, sized lists, unions,  *)
(* tuples, bool).                                                           *)

\* all sequences of length n over set S
RECURSIVE SeqsN(_, _)
SeqsN(S, n) == IF n = 0 THEN {<<>>} ELSE {Append(s, x) : s \in SeqsN(S, n - 1), x \in S}

\* cartesian product of a sequence of sets, as a set of sequences
RECURSIVE ProdSeq(_)
ProdSeq(ss) == IF ss = <<>> THEN {<<>>}
               ELSE {<<x>> \o r : x \in Head(ss), r \in ProdSeq(Tail(ss))}

RECURSIVE Lang(_, _, _)
Lang(G, f, d) ==
    CASE f.k = "sym" /\ IsAbs(G, f.s) ->
             UNION {Lang(G, [f EXCEPT !.s = p], d) : p \in Prods(G, f.s)}
      [] f.k = "sym" /\ d < 1 -> {}
      [] f.k = "sym" ->
             {Node(f.s, kids) : kids \in ProdSeq([i \in DOMAIN Fields(G, f.s) |-> Lang(G, Fields(G, f.s)[i].f, d - 1)])}
      [] f.k = "union" -> UNION {Lang(G, f.es[i], d) : i \in DOMAIN f.es}
      [] f.k = "tuple" -> {TupleT(kids) : kids \in ProdSeq([i \in DOMAIN f.es |-> Lang(G, f.es[i], d)])}
      [] f.k = "base" /\ f.s = "bool" -> {BoolV(0), BoolV(1)}
      [] f.k = "base" /\ f.s = "int"  -> {IntV(0)}          \* unrefined values are abstracted to their type
      [] f.k = "ann" /\ f.mh.k = "IntRange" -> {IntV(v) : v \in f.mh.lo..f.mh.hi}
      [] f.k = "ann" /\ f.mh.k = "IntList"  -> {IntV(f.mh.vals[i]) : i \in DOMAIN f.mh.vals}
      [] f.k = "ann" /\ f.mh.k = "VarRange" -> {StrV(f.mh.opts[i]) : i \in DOMAIN f.mh.opts}
      [] f.k = "ann" /\ f.mh.k = "ListSize" ->
             UNION {{ListT(s) : s \in SeqsN(Lang(G, f.es[1].es[1], d), n)} : n \in f.mh.lo..f.mh.hi}
      [] OTHER -> {}        \* not finite-choice

=============================================================================
