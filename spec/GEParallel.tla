----------------------------- MODULE GEParallel -----------------------------
(***************************************************************************)
(* ParallelEvaluator.evaluate_async (geneticengine/evaluation/parallel.py) *)
(* with an explicit worker schedule.  A population (sequence of individual *)
(* ids, possibly with duplicates and already evaluated members) is handed  *)
(* to a pool: every individual that still needs a fitness is submitted     *)
(* once; workers start and finish in ANY order (at most Workers running at *)
(* a time); results are gathered BY SUBMISSION POSITION (pool.map).        *)
(* Property (C13): whatever the schedule, the final fitness store and the  *)
(* counter equal what the sequential evaluator produces.                   *)
(*                                                                         *)
(* Pairing = "position"   : the design (pool.map)                          *)
(* Pairing = "completion" : results zipped in completion order (what an    *)
(*                          unordered map would do) - kept as a            *)
(*                          sensitivity guard: TLC must find the mismatch. *)
(***************************************************************************)
EXTENDS GEBase

CONSTANTS Pops,      \* set of populations: sequences of individual ids
          PreEval,   \* set of ids that already have a fitness before the call
          FF,        \* id -> fitness value the fitness function returns for that individual
          Workers,   \* pool size bound
          Pairing

VARIABLES pop, pending, wstate, finished, store, count, pc
pvars == <<pop, pending, wstate, finished, store, count, pc>>

\* distinct individuals that need evaluation, in order of first appearance
RECURSIVE NeedSeq(_, _)
NeedSeq(p, seen) == IF p = <<>> THEN <<>>
                    ELSE IF Head(p) \in seen \/ Head(p) \in PreEval THEN NeedSeq(Tail(p), seen)
                    ELSE <<Head(p)>> \o NeedSeq(Tail(p), seen \cup {Head(p)})

Init == /\ pop \in Pops
        /\ pending = NeedSeq(pop, {})
        /\ wstate = [k \in DOMAIN pending |-> "queued"]
        /\ finished = <<>>                       \* positions in completion order
        /\ store = [i \in PreEval |-> FF[i]]
        /\ count = 0
        /\ pc = "map"

Running == {k \in DOMAIN wstate : wstate[k] = "running"}

WorkerStart(k) == /\ pc = "map" /\ wstate[k] = "queued" /\ Cardinality(Running) < Workers
                  /\ wstate' = [wstate EXCEPT ![k] = "running"]
                  /\ UNCHANGED <<pop, pending, finished, store, count, pc>>
WorkerFinish(k) == /\ pc = "map" /\ wstate[k] = "running"
                   /\ wstate' = [wstate EXCEPT ![k] = "done"]
                   /\ finished' = Append(finished, k)
                   /\ UNCHANGED <<pop, pending, store, count, pc>>

\* results come back as a list: by submission position (map) or by completion (unordered map)
ResultAt(j) == IF Pairing = "position" THEN FF[pending[j]] ELSE FF[pending[finished[j]]]

Gather == /\ pc = "map" /\ \A k \in DOMAIN wstate : wstate[k] = "done"
          /\ store' = [i \in DOMAIN store \cup RangeOf(pending) |->
                          IF i \in RangeOf(pending)
                          THEN ResultAt(CHOOSE j \in DOMAIN pending : pending[j] = i)
                          ELSE store[i]]
          /\ count' = count + Len(pending)
          /\ pc' = "done"
          /\ UNCHANGED <<pop, pending, wstate, finished>>

Next == (\E k \in DOMAIN wstate : WorkerStart(k) \/ WorkerFinish(k)) \/ Gather
Spec == Init /\ [][Next]_pvars

\* what the sequential evaluator leaves behind for the same population
SeqStore == [i \in PreEval \cup RangeOf(pop) |-> FF[i]]
SeqCount == Cardinality(RangeOf(pop) \ PreEval)

ParallelEqualsSequential == pc = "done" => store = SeqStore /\ count = SeqCount
=============================================================================
