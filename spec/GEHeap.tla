-------------------------------- MODULE GEHeap --------------------------------
(***************************************************************************)
(* Objects with identity (property C09).  Variation operators and steps    *)
(* ALLOCATE new objects (a mutated tree gets a new spine and may reference *)
(* old subtrees; offspring genotypes get new gene lists) and never write   *)
(* existing ones, with two named monotone exceptions: labelling an object  *)
(* that is not labelled yet, and caching the fitness / phenotype of an     *)
(* individual that has none yet.                                           *)
(*   heap : id -> [kids, labelled, fit]    (kids: sequence of ids)         *)
(* Discipline = "allocate" is the design; "write-in-place" lets an operator *)
(* overwrite a child slot of an existing object (a sensitivity guard).     *)
(***************************************************************************)
EXTENDS GEBase
CONSTANTS MaxObjs, Discipline
VARIABLES heap, roots
hvars == <<heap, roots>>

Ids == DOMAIN heap
NewId == Len(heap) + 1
Obj(kids) == [kids |-> kids, labelled |-> FALSE, fit |-> 0]

Init == heap = <<Obj(<<>>), Obj(<<>>)>> /\ roots = {1, 2}

\* mutation / crossover: a new object whose children are existing objects (shared sub-structure)
Allocate == /\ Len(heap) < MaxObjs
            /\ \E ks \in {<<>>} \cup {<<a>> : a \in Ids} \cup {<<a, b>> : a \in Ids, b \in Ids} :
                  heap' = Append(heap, Obj(ks))
            /\ roots' = roots \cup {NewId}
\* wrap_result / relabel_nodes: labels are written once
Label(o) == /\ ~heap[o].labelled /\ heap' = [heap EXCEPT ![o].labelled = TRUE] /\ UNCHANGED roots
\* evaluation caches a fitness once
SetFit(o) == /\ heap[o].fit = 0 /\ \E v \in 1..1 : heap' = [heap EXCEPT ![o].fit = v] /\ UNCHANGED roots
\* the guard variant: an operator rewires an existing object
Overwrite(o) == /\ Discipline = "write-in-place" /\ heap[o].kids # <<>>
                /\ \E a \in Ids : heap' = [heap EXCEPT ![o].kids[1] = a] /\ UNCHANGED roots

Next == Allocate \/ (\E o \in Ids : Label(o) \/ SetFit(o) \/ Overwrite(o))
Spec == Init /\ [][Next]_hvars

\* C09: existing objects keep their structure; labels and fitness are only ever filled in
Monotone(old, new) == /\ new.kids = old.kids
                      /\ (old.labelled => new.labelled)
                      /\ (old.fit # 0 => new.fit = old.fit)
HeapAppendOnly == [][\A o \in Ids : Monotone(heap[o], heap'[o])]_hvars
\* consequently an object reachable from two roots is never rewired under either of them
=============================================================================
