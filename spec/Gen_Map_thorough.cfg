SPECIFICATION Spec
CONSTANT MaxLen = 6
CONSTANT NSample = 3000
