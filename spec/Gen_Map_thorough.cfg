SPECIFICATION Spec
CONSTANT MaxLen = 5
CONSTANT NSample = 3000
