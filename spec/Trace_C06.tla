------------------------------ MODULE Trace_C06 ------------------------------
(* Trace validation for C06 against GEVariation: recorded crossover / mutation calls of all
   five representations.  Events:
     xo  [rep, kind, p1, p2, c1, c2]   kind in tree | linear | struct
     mut [rep, kind, g, m]             kind in linear | struct
   Trees are terms; genes are rank-encoded per event (only equality matters). *)
EXTENDS GEVariation, TraceKit

G == Cfg.g

XoClause(ev) ==
    CASE ev.kind = "tree" ->
           IF IsRecomb(ev.p1, ev.c1, Subterms(ev.p2)) /\ IsRecomb(ev.p2, ev.c2, Subterms(ev.p1)) THEN "ok"
           ELSE "C06:tree-child-not-recombination"
      [] ev.kind = "linear" ->
           IF LinearXOOK(ev.p1, ev.p2, ev.c1) /\ LinearXOOK(ev.p2, ev.p1, ev.c2) THEN "ok"
           ELSE IF Len(ev.c1) # Len(ev.p1) \/ Len(ev.c2) # Len(ev.p2) THEN "C06:shape-changed"
           ELSE "C06:gene-not-parental"
      [] ev.kind = "struct" ->
           IF StructXOOK(ev.p1, ev.p2, ev.c1) /\ StructXOOK(ev.p2, ev.p1, ev.c2) THEN "ok" ELSE "C06:gene-not-parental"
      [] OTHER -> "C06:unknown-kind"

MutClause(ev) ==
    CASE ev.kind = "linear" ->
           IF Len(ev.m) # Len(ev.g) THEN "C06:shape-changed"
           ELSE IF Hamming(ev.g, ev.m) > 1 THEN "C06:mutation-not-local" ELSE "ok"
      [] ev.kind = "struct" ->
           IF ~StructShapeSame(ev.g, ev.m) THEN "C06:shape-changed"
           ELSE IF StructDiff(ev.g, ev.m) > 1 THEN "C06:mutation-not-local" ELSE "ok"
      [] OTHER -> "ok"

Clause(ev) == CASE ev.e = "xo" -> XoClause(ev) [] ev.e = "mut" -> MutClause(ev) [] OTHER -> "ok"
Attrs(ev)  == IF ev.e = "xo" /\ ev.kind = "tree"
              THEN <<"tree", IF IsAbs(G, G.start) THEN "abstract-start-symbol" ELSE "concrete-start-symbol">>
              ELSE <<ev.rep, ev.e>>

TInit   == tid \in 1..NTraces /\ InitWith(0)
TNext   == Step(Clause(Ev), Attrs(Ev), st)
TSpec   == TInit /\ [][TNext]_tvars
Collect == CollectWith("ok")
=============================================================================
