SPECIFICATION Spec
CONSTANT FlushPolicy = "on-best-only"
CONSTANT OnlyBest = FALSE
INVARIANT AfterRegister
INVARIANT DiskIsPrefix
INVARIANT CrashBetweenRegistrationsLosesNothing
INVARIANT RowCount
CHECK_DEADLOCK FALSE
