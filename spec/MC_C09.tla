------------------------------- MODULE MC_C09 -------------------------------
EXTENDS GEBase
CONSTANT Discipline
VARIABLES heap, roots
INSTANCE GEHeap WITH MaxObjs <- 4
=============================================================================
