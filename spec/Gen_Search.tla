----------------------------- MODULE Gen_Search -----------------------------
(* (R) TLC generates the fitness histories that are replayed into the real trackers and
   searches: every sequence over a small value set up to a length bound (ties, repeats,
   improvements after plateaus are all in there), for one and two objectives. *)
EXTENDS Naturals, Sequences, FiniteSets, TLC, Json, IOUtils

CONSTANTS L1, L2
Seqs(S, n) == UNION {[1..k -> S] : k \in 1..n}
H1 == Seqs({<<1>>, <<2>>, <<3>>}, L1)
H2 == Seqs({<<1, 1>>, <<1, 2>>, <<2, 1>>, <<2, 2>>}, L2)
SetToSeq(S) == CHOOSE f \in [1..Cardinality(S) -> S] : \A i, j \in DOMAIN f : i # j => f[i] # f[j]
ASSUME JsonSerialize(IOEnv.GEN_OUT, [single |-> H1, multi |-> H2])
VARIABLE x
Spec == x = 0 /\ [][UNCHANGED x]_x
=============================================================================
