SPECIFICATION Spec
CONSTANT Alg = "HC"
CONSTANT Variant = "ascoded"
CONSTANT K = 2
CONSTANT N = 4
CONSTANT MaxFit = 2
INVARIANT TypeOK
INVARIANT BestIsMax
INVARIANT BestIsFirstMax
INVARIANT Window
INVARIANT NoEarlyStop
INVARIANT OffspringAreMutants
INVARIANT ParentIsBest
PROPERTY Terminates
CHECK_DEADLOCK FALSE
