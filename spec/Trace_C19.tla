------------------------------ MODULE Trace_C19 ------------------------------
(***************************************************************************)
(* Conformance for C19.  Cfg.g is the declared hierarchy with the DECLARED *)
(* weights (read from the classes before the first extraction; scaled by   *)
(* 10^4).  Events:                                                         *)
(*   weights [k, impl]      projection of the Grammar after the k-th       *)
(*                          extraction of the same classes (weights x10^4) *)
(*   choose  [chooser, options, ws, chosen, exc]   a weight-aware chooser  *)
(*                          driven through one outcome of its raw draws;   *)
(*                          ws = the production weights (x10^4) of options *)
(***************************************************************************)
EXTENDS GEGrammar, TraceKit

G == Cfg.g
Tol == 2                           \* 10^-4 units: rounding of the projection
Registered(impl) == RangeOf(impl.nodes) \cap Names(G)
W(impl, p) == impl.weights[p]
RuleOK(impl, a) ==
    LET ps == Prods(G, a) \cap Registered(impl) IN
    IF ps = {} THEN "ok"
    ELSE IF \E p \in ps : W(impl, p) < 0 THEN "C19:negative"
    ELSE LET RECURSIVE S(_)
             S(Q) == IF Q = {} THEN 0 ELSE LET q == CHOOSE q \in Q : TRUE IN W(impl, q) + S(Q \ {q})
         IN IF Abs(S(ps) - 10000) > Tol * Cardinality(ps) THEN "C19:sum"
            \* ratios: w[p] / w[q] = raw[p] / raw[q]  <=>  w[p] * sum_raw = raw[p] * 10^4 (within tolerance)
            ELSE IF \E p \in ps : Abs(W(impl, p) * (SumW(G, a) \div 100) - RawW(G, p) * 100) > Tol * (SumW(G, a) \div 100) + 100
                 THEN "C19:ratio" ELSE "ok"

\* the property speaks of grammars extracted from classes CARRYING production weights
AnyWeighted == \E c \in Names(G) : G.classes[c].hasw
FirstBadRule(impl) ==
    IF ~AnyWeighted THEN "ok" ELSE
    LET wrong == {a \in Registered(impl) : IsAbs(G, a) /\ RuleOK(impl, a) # "ok"}
    IN IF wrong = {} THEN "ok" ELSE RuleOK(impl, CHOOSE a \in wrong : TRUE)

RECURSIVE ZeroOnPath(_)
ZeroOnPath(c) ==
    LET p == Parent(G, c) IN
    IF p = "" \/ ~Known(G, p) THEN FALSE
    ELSE \/ (RawW(G, c) = 0 /\ \E sib \in Prods(G, p) : RawW(G, sib) > 0)
         \/ ZeroOnPath(p)

Clause(prev, ev) ==
    CASE ev.e = "weights" ->
           IF ev.exc # "" THEN "C19:extract-raises"
           ELSE IF FirstBadRule(ev.impl) # "ok" THEN FirstBadRule(ev.impl)
           ELSE IF prev.has /\ \E p \in Registered(ev.impl) : Abs(W(ev.impl, p) - prev.w[p]) > Tol THEN "C19:not-idempotent"
           \* "extracting the same grammar again changes nothing": not even the last bit of a weight (weighted choices
           \* truncate scaled weights to integers, so a drift of one ulp can change a seeded run)
           ELSE IF prev.has /\ ~ev.exact_same THEN "C19:not-idempotent-to-the-bit"
           ELSE "ok"
      [] ev.e = "choose" ->
           IF ev.exc # "" THEN "C19:chooser-raises"
           ELSE IF (\E i \in DOMAIN ev.ws : ev.ws[i] > 0) /\ ev.ws[ev.chosen] = 0 THEN "C19:zero-weight-chosen"
           ELSE "ok"
      \* a class occurs in a program built by a weight-aware machine although it - or an abstract type on the way to
      \* it - was declared with weight zero next to a sibling of positive weight
      [] ev.e = "prog" ->
           IF \E i \in DOMAIN ev.classes : Known(G, ev.classes[i]) /\ ZeroOnPath(ev.classes[i]) THEN "C19:zero-weight-chosen" ELSE "ok"
      [] OTHER -> "ok"

Attrs(prev, ev) ==
    CASE ev.e = "weights" -> <<IF ev.exc # "" THEN ev.exc ELSE "extraction-" \o ToString(ev.k), Cfg.considered>>
      [] ev.e = "prog" -> <<ev.machine, "whole-program">>
      [] ev.e = "choose" -> <<ev.chooser, IF ev.exc # "" THEN ev.exc ELSE IF ev.chosen = 1 THEN "first-option" ELSE "other-option">>
      [] OTHER -> <<>>

Eff(prev, ev) == IF ev.e = "weights" /\ ev.exc = "" THEN [has |-> TRUE, w |-> ev.impl.weights] ELSE prev

TInit   == tid \in 1..NTraces /\ InitWith([has |-> FALSE, w |-> <<>>])
TNext   == Step(Clause(st, Ev), Attrs(st, Ev), Eff(st, Ev))
TSpec   == TInit /\ [][TNext]_tvars
Collect == CollectWith("ok")
=============================================================================
