----------------------------- MODULE Trace_Derive -----------------------------
(***************************************************************************)
(* Decision-level conformance of create_node with the derivation machine   *)
(* of GESynthesis.  A RecordingDecider (a SynthesisDecider delegating to   *)
(* the real one) logs every production / union choice the real code asks   *)
(* for: the symbol, the context depth it passes, the alternatives offered  *)
(* and the one chosen.  One event per creation:                            *)
(*   derivation [decider, d, decisions, prog, backtracked]                 *)
(* The specification REPLAYS the leftmost derivation on the produced       *)
(* program: walking the term in pre-order, every abstract-typed position   *)
(* (one decision per abstract layer) and every union position must consume *)
(* exactly the next recorded decision, with                                *)
(*   - the symbol the machine expands there,                               *)
(*   - the context depth of the machine (number of enclosing nodes),       *)
(*   - the offered alternatives = the grammar's productions, in order,     *)
(*   - a choice inside GESynthesis's Choices for that decider (judged with *)
(*     the distances the implementation reports), and                      *)
(*   - the chosen production being the one found in the program.           *)
(***************************************************************************)
EXTENDS GESynthesisRules, TraceKit

G == Cfg.g
ImplDist == Cfg.impl0.dist
D(f) == FormMinV(f, ImplDist, {"list-assumed-nonempty"})      \* get_distance_to_terminal, as coded, on the implementation's table
IsRec(f) == f.k = "sym" /\ f.s \in RangeOf(Cfg.impl0.recursive)

\* the abstract layers between declared symbol a and concrete class c, top-down: <<a, ..., parent(c)>>
RECURSIVE ChainDown(_, _)
ChainDown(c, a) == IF c = a \/ ~Known(G, c) \/ Parent(G, c) = "" THEN <<>> ELSE ChainDown(Parent(G, c), a) \o <<Parent(G, c)>>

Err(what) == [ok |-> FALSE, what |-> what, rest |-> <<>>]
Ok(rest)  == [ok |-> TRUE, what |-> "", rest |-> rest]

\* ProgressivelyTerminalDecider: target = get_max_node_depth() of the implementation's own table, grammar weights as reported
PtTargetImpl == LET m == SMax({ImplDist[n] : n \in RangeOf(Cfg.impl0.nodes) \cap DOMAIN ImplDist} \cup {0})
                IN IF m >= INF THEN Cfg.impl0.mindepth * Len(Cfg.impl0.recursive) ELSE m
W(f) == IF f.k = "sym" /\ f.s \in RangeOf(Cfg.impl0.wkeys) THEN Cfg.impl0.weights[f.s] ELSE 10000
Allowed(dec, maxd, offered, c) ==
    IF dec = "pt" THEN PtSetD(D, IsRec, W, offered, c, PtTargetImpl, "closest")
    ELSE ChoicesD(D, IsRec, dec, offered, c, maxd)

\* consume one decision for symbol `sym` (abstract class name or "union") at depth c choosing `chosen` (a form)
Consume(ds, sym, c, offeredForms, chosenForm, dec, maxd) ==
    IF ds = <<>> THEN Err("decision-missing")
    ELSE LET dcn == Head(ds) IN
         IF dcn.sym # sym THEN Err("decision-symbol")
         ELSE IF dcn.c # c THEN Err("context-depth")
         ELSE IF dcn.offered # offeredForms THEN Err("offered-alternatives")
         ELSE IF dcn.chosen # chosenForm THEN Err("chosen-not-in-program")
         ELSE IF chosenForm \notin Allowed(dec, maxd, RangeOf(offeredForms), c) THEN Err("choice-outside-model")
         ELSE Ok(Tail(ds))

RECURSIVE Replay(_, _, _, _, _, _)
RECURSIVE ReplayKids(_, _, _, _, _, _, _)
RECURSIVE ReplayChain(_, _, _, _, _, _, _)

\* decisions for the abstract layers chain[i..] leading to concrete class cls
ReplayChain(chain, i, cls, c, ds, dec, maxd) ==
    IF i > Len(chain) THEN Ok(ds)
    ELSE LET a    == chain[i]
             next == IF i = Len(chain) THEN cls ELSE chain[i + 1]
             offered == [j \in DOMAIN Cfg.impl0.alts[a] |-> SymF(Cfg.impl0.alts[a][j])]
             r    == IF a \notin DOMAIN Cfg.impl0.alts THEN Err("no-productions")
                     ELSE Consume(ds, a, c, offered, SymF(next), dec, maxd)
         IN IF ~r.ok THEN r ELSE ReplayChain(chain, i + 1, cls, c, r.rest, dec, maxd)

ReplayKids(t, fs, cs, i, ds, dec, maxd) ==
    IF i > Len(fs) THEN Ok(ds)
    ELSE LET r == Replay(t.kids[i], fs[i], cs[i], ds, dec, maxd)
         IN IF ~r.ok THEN r ELSE ReplayKids(t, fs, cs, i + 1, r.rest, dec, maxd)

Replay(t, f, c, ds, dec, maxd) ==
    CASE f.k = "sym" ->
           IF t.k # "node" \/ ~Known(G, t.ty) \/ ~IsBelow(G, t.ty, f.s) THEN Err("ill-typed")
           ELSE LET r == ReplayChain(ChainDown(t.ty, f.s) , 1, t.ty, c, ds, dec, maxd)
                    \* ChainDown excludes f.s itself when f.s is the top abstract symbol: prepend it
                IN IF ~r.ok THEN r
                   ELSE IF Len(t.kids) # Len(Fields(G, t.ty)) THEN Err("ill-typed")
                   ELSE ReplayKids(t, [i \in DOMAIN t.kids |-> Fields(G, t.ty)[i].f], [i \in DOMAIN t.kids |-> c + 1], 1, r.rest, dec, maxd)
      [] f.k = "union" ->
           IF ds = <<>> THEN Err("decision-missing")
           ELSE LET chosen == Head(ds).chosen
                    r == Consume(ds, "union", c, f.es, chosen, dec, maxd)
                IN IF ~r.ok THEN r
                   ELSE IF ~(\E j \in DOMAIN f.es : f.es[j] = chosen) THEN Err("chosen-not-an-alternative")
                   ELSE Replay(t, chosen, c, r.rest, dec, maxd)
      [] f.k = "list" ->
           IF t.k # "list" THEN Err("ill-typed")
           ELSE ReplayKids(t, [i \in DOMAIN t.kids |-> f.es[1]], [i \in DOMAIN t.kids |-> c], 1, ds, dec, maxd)
      [] f.k = "tuple" ->
           IF t.k # "tuple" \/ Len(t.kids) # Len(f.es) THEN Err("ill-typed")
           ELSE ReplayKids(t, f.es, [i \in DOMAIN t.kids |-> c], 1, ds, dec, maxd)
      [] f.k = "ann" -> Replay(t, f.es[1], c, ds, dec, maxd)
      [] OTHER -> Ok(ds)

TopChain(t) == IF IsAbs(G, G.start) THEN <<G.start>> ELSE <<>>

Verdict(ev) ==
    IF ev.backtracked THEN "ok"            \* a production raised SynthesisException: extra decisions are legitimate
    ELSE LET r == Replay(ev.prog, StartForm(G), 0, ev.decisions, ev.decider, ev.d)
         IN IF ~r.ok THEN r.what ELSE IF r.rest # <<>> THEN "decisions-left-over" ELSE "ok"

Clause(ev) == IF ev.e = "derivation" /\ Verdict(ev) # "ok" THEN "C03:derivation#" \o Verdict(ev) ELSE "ok"
Attrs(ev)  == IF ev.e = "derivation" THEN <<ev.decider, ev.rep>> ELSE <<>>

TInit   == tid \in 1..NTraces /\ InitWith(0)
TNext   == Step(Clause(Ev), Attrs(Ev), st)
TSpec   == TInit /\ [][TNext]_tvars
Collect == CollectWith("ok")
=============================================================================
