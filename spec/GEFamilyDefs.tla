------------------------------ MODULE GEFamilyDefs ------------------------------
(***************************************************************************)
(* A TLC-enumerable family of grammars: every closed subset of a pool of   *)
(* productions over two abstract types E (start) and M.  Shared by the     *)
(* model-checking instances of C05 (analysis) and C01-C04 / C10            *)
(* (synthesis).                                                            *)
(***************************************************************************)
EXTENDS GEMeta

NoMh == [k |-> "none"]
Sym(s)      == [k |-> "sym",   s |-> s,  es |-> <<>>, mh |-> NoMh]
Base(s)     == [k |-> "base",  s |-> s,  es |-> <<>>, mh |-> NoMh]
ListF(f)    == [k |-> "list",  s |-> "", es |-> <<f>>, mh |-> NoMh]
TupleF(fs)  == [k |-> "tuple", s |-> "", es |-> fs,   mh |-> NoMh]
UnionF(fs)  == [k |-> "union", s |-> "", es |-> fs,   mh |-> NoMh]
Ann(f, mh)  == [k |-> "ann",   s |-> "", es |-> <<f>>, mh |-> mh]
IR(lo, hi)  == Ann(Base("int"), [k |-> "IntRange", lo |-> lo, hi |-> hi])
Sized(f, lo, hi) == Ann(ListF(f), [k |-> "ListSize", lo |-> lo, hi |-> hi, ops |-> TRUE])

Fld(n, f) == [n |-> n, f |-> f]
Cls(name, parent, abs, fields) ==
    [name |-> name, parent |-> parent, abstract |-> abs, fields |-> fields, hasw |-> FALSE, w |-> 10000]

Pool == <<
    Cls("Lit",  "E", FALSE, <<Fld("v", IR(0, 1))>>),
    Cls("B",    "E", FALSE, <<Fld("b", Base("bool"))>>),
    Cls("Un",   "E", FALSE, <<Fld("e", Sym("E"))>>),
    Cls("Bin",  "E", FALSE, <<Fld("l", Sym("E")), Fld("r", Sym("E"))>>),
    Cls("Ls0",  "E", FALSE, <<Fld("xs", Sized(Sym("E"), 0, 1))>>),
    Cls("Ls1",  "E", FALSE, <<Fld("xs", Sized(Sym("E"), 1, 2))>>),
    Cls("Uni",  "E", FALSE, <<Fld("u", UnionF(<<Sym("E"), IR(0, 1)>>))>>),
    Cls("Tup",  "E", FALSE, <<Fld("p", TupleF(<<Sym("E"), IR(0, 1)>>))>>),
    Cls("Wrap", "E", FALSE, <<Fld("m", Sym("M"))>>),
    Cls("MRec", "M", FALSE, <<Fld("e", Sym("E"))>>),
    Cls("MLeaf","M", FALSE, <<>>),
    Cls("UniC", "E", FALSE, <<Fld("u", UnionF(<<Sym("MLeaf"), Sym("E")>>))>>)
>>

Abstracts == <<Cls("E", "", TRUE, <<>>), Cls("M", "", TRUE, <<>>)>>

MkG(S) ==
    LET cs == Abstracts \o SelectSeq(Pool, LAMBDA c : \E i \in S : Pool[i] = c)
    IN [start |-> "E", names |-> [i \in DOMAIN cs |-> cs[i].name],
        classes |-> [n \in {cs[i].name : i \in DOMAIN cs} |-> cs[CHOOSE i \in DOMAIN cs : cs[i].name = n]]]

\* only closed hierarchies: every symbol a field mentions is a supplied class
Closed(S) == LET g == MkG(S) IN \A c \in Names(g) : Mentions(g, c) \subseteq Names(g)
=============================================================================
