----------------------------- MODULE Trace_Search -----------------------------
(***************************************************************************)
(* Trace validation of real searches / tracker sessions against            *)
(* GEEvaluation (+ the loop rules of GEAlgorithms).  Decides the clauses   *)
(* of C12 (best really is best), C13 (fitness from the phenotype, once,    *)
(* counted honestly) and C14 (stop at the first budget check).             *)
(*                                                                         *)
(* Events (recorded through RecordingBudget, an observing SearchRecorder,  *)
(* a counting fitness function and a token-stamping Representation):       *)
(*  ff    [tok, ret]                fitness function invoked on the        *)
(*                                  phenotype of individual-token tok      *)
(*  reg   [ind, tok, comps, agg, isbest, best, front]   recorder notified; *)
(*                                  best/front = tracker state afterwards  *)
(*  check [count, done, hasbest, c, tlo, thi]   budget.is_done(tracker)    *)
(*  ret   [ind, count]              search() returned                      *)
(*  lasso [checks, ffs]             watchdog: no progress of the counter   *)
(* Cfg: [mini, multi, alg, fb, b, n, budget, hastarget]                    *)
(* Batch.meta.prop selects which property's clauses are reported.          *)
(***************************************************************************)
EXTENDS GEEvaluation, TraceKit

Prop == Batch.meta.prop
Mini == Cfg.mini

S0 == [t |-> T0,             \* tracker state of GEEvaluation, keyed by individual id
       ffret |-> <<>>,       \* token -> value returned by the fitness function
       ffinv |-> <<>>,       \* token -> number of invocations
       ffn |-> 0,            \* total invocations
       since |-> 0,          \* invocations since the last budget check
       checks |-> 0,         \* budget checks so far
       done |-> FALSE,       \* a check has answered TRUE
       lastcount |-> 0,
       cur |-> <<>>]         \* individuals registered since the last `present` event

Get(f, k, dflt) == IF k \in DOMAIN f THEN f[k] ELSE dflt
Put(f, k, v) == [j \in DOMAIN f \cup {k} |-> IF j = k THEN v ELSE f[j]]

\* ---- effects ---------------------------------------------------------------
EffFF(x, ev) == [x EXCEPT !.ffret = Put(x.ffret, ev.tok, ev.ret),
                          !.ffinv = Put(x.ffinv, ev.tok, Get(x.ffinv, ev.tok, 0) + 1),
                          !.ffn = x.ffn + 1, !.since = x.since + 1]

\* the fitness the specification attributes to the individual: what the fitness function
\* returned for its phenotype (falls back to the recorded value when no invocation was seen)
TrueFit(x, ev) == Get(x.ffret, ev.tok, ev.comps)

EffReg(x, ev) ==
    LET t1 == IF HasFit(x.t, ev.ind) THEN x.t
              ELSE [EvalOne(x.t, ev.ind, TrueFit(x, ev), Mini) EXCEPT !.count = x.t.count, !.ffn = x.t.ffn]
        t2 == IF Cfg.multi THEN PostMulti(t1, ev.ind, Mini) ELSE PostSingle(t1, ev.ind, Mini)
    IN [x EXCEPT !.t = t2, !.cur = Append(x.cur, ev.ind)]

EffCheck(x, ev) == [x EXCEPT !.since = 0, !.checks = x.checks + 1, !.done = ev.done, !.lastcount = ev.count]

Eff(x, ev) == CASE ev.e = "ff"    -> EffFF(x, ev)
                [] ev.e = "reg"   -> EffReg(x, ev)
                [] ev.e = "check" -> EffCheck(x, ev)
                [] ev.e = "present" -> [x EXCEPT !.cur = <<>>]
                [] OTHER -> x

\* ---- clauses: each returns the sequence of violated clause names (possibly empty) ------
BatchNow(x) == IF x.checks <= 1 THEN Cfg.fb ELSE Cfg.b

FFClauses(x, ev) ==
    (IF Get(x.ffinv, ev.tok, 0) >= 1 THEN <<<<"C13", "C13:evaluated-twice">>>> ELSE <<>>)
    \o (IF x.done THEN <<<<"C14", "C14:eval-after-done">>>> ELSE <<>>)
    \o (IF Cfg.alg # "direct" /\ x.checks >= 1 /\ x.since + 1 > BatchNow(x)
        THEN <<<<"C14", "C14:more-than-batch-between-checks">>>> ELSE <<>>)

RegClauses(x, ev) ==
    LET x2    == EffReg(x, ev)
        isNew == ~HasFit(x.t, ev.ind)
        fitv  == FitOf(x2.t, ev.ind)
        first == x.t.seen = 0
        expect == FlagExpected(x.t, ev.ind, fitv, Mini, first)
    IN (IF isNew /\ ev.tok \notin DOMAIN x.ffret THEN <<<<"C13", "C13:fitness-without-invocation">>>> ELSE <<>>)
       \o (IF ev.comps # fitv THEN <<<<"C13", "C13:fitness#ff(program)">>>> ELSE <<>>)
       \o (IF ev.agg # Agg(ev.comps, Mini) THEN <<<<"C13", "C13:aggregate">>>> ELSE <<>>)
       \o (IF Cfg.multi
           THEN (IF ev.isbest /\ Agg(fitv, Mini) # x2.t.maxagg THEN <<<<"C12", "C12:is_best-flag">>>> ELSE <<>>)
           ELSE (IF ev.isbest # expect THEN <<<<"C12", "C12:is_best-flag">>>> ELSE <<>>))
       \o (IF Cfg.multi
           THEN (IF ev.front = <<>> \/ \E k \in DOMAIN ev.front :
                        ~HasFit(x2.t, ev.front[k]) \/ Agg(FitOf(x2.t, ev.front[k]), Mini) # x2.t.maxagg
                 THEN <<<<"C12", "C12:front">>>> ELSE <<>>)
           ELSE (IF ev.best = 0 \/ ~HasFit(x2.t, ev.best) \/ Agg(FitOf(x2.t, ev.best), Mini) # x2.t.maxagg
                 THEN <<<<"C12", "C12:tracker-best">>>> ELSE <<>>))

BudgetPred(x, ev) ==
    \* "at least n evaluations have been made": judged on the invocations the trace has seen (x.ffn),
    \* not on the counter the implementation reports (whose honesty is C13's business)
    CASE Cfg.budget = "eval"   -> EvalBudgetDone(x.ffn, Cfg.n)
      \* TimeBudget in virtual time: the driver's clock advances one second per fitness invocation and the limit
      \* is n - 0.5 seconds, so "elapsed >= limit" is "at least n invocations"
      [] Cfg.budget = "time"   -> EvalBudgetDone(x.ffn, Cfg.n)
      [] Cfg.budget = "target" -> TargetDone(ev.hasbest, ev.c, ev.tlo, ev.thi)
      [] Cfg.budget = "anyof"  -> TargetDone(ev.hasbest, ev.c, ev.tlo, ev.thi) \/ EvalBudgetDone(x.ffn, Cfg.n)
      \* multi-objective targets (TargetMultiFitness / TargetMultiSameFitness, in a disjunction with an evaluation
      \* budget): every component of the first reported best within tolerance of its target; no best yet -> not done
      [] Cfg.budget \in {"mtarget", "msame"} ->
             \/ (ev.hasbest /\ \A k \in DOMAIN ev.cs : TargetDone(TRUE, ev.cs[k][1], ev.cs[k][2], ev.cs[k][3]))
             \/ EvalBudgetDone(x.ffn, Cfg.n)
      [] OTHER -> FALSE

CheckClauses(x, ev) ==
    (IF ev.count # x.ffn THEN <<<<"C13", "C13:counter#invocations">>>> ELSE <<>>)
    \o (IF ev.done # BudgetPred(x, ev)
        THEN <<<<"C14", IF Cfg.budget = "eval" THEN "C14:budget-verdict"
                        ELSE IF Cfg.budget = "target" THEN "C14:target-verdict"
                        ELSE IF Cfg.budget = "time" THEN "C14:time-verdict"
                        ELSE IF Cfg.budget \in {"mtarget", "msame"} THEN "C14:multi-target-verdict" ELSE "C14:anyof-verdict">>>>
        ELSE <<>>)
    \o (IF x.done THEN <<<<"C14", "C14:check-after-done">>>> ELSE <<>>)

RetClauses(x, ev) ==
    (IF ~x.done THEN <<<<"C14", "C14:returned-without-done-check">>>> ELSE <<>>)
    \o (IF ev.count # x.ffn THEN <<<<"C13", "C13:counter#invocations">>>> ELSE <<>>)
    \o (IF Cfg.budget \in {"eval", "time"} /\ ~(Cfg.n <= x.ffn /\ x.ffn < Cfg.n + (IF Cfg.n <= Cfg.fb THEN Cfg.fb ELSE Cfg.b))
        THEN <<<<"C14", "C14:total-out-of-window">>>> ELSE <<>>)
    \o (IF ev.ind = 0 \/ ~HasFit(x.t, ev.ind) \/ Agg(FitOf(x.t, ev.ind), Mini) # x.t.maxagg
        THEN <<<<"C12", "C12:returned#best">>>>
        ELSE IF \E k \in DOMAIN x.ffret : Agg(x.ffret[k], Mini) > Agg(FitOf(x.t, ev.ind), Mini)
        THEN <<<<"C12", "C12:returned-worse-than-evaluated">>>> ELSE <<>>)

\* direct evaluator calls (both evaluators on identical populations); fitness = Cfg.table[program value]
TableFit(v) == Cfg.table[(v % Len(Cfg.table)) + 1]
FreshIds(ev) == {ev.inds[k].id : k \in {j \in DOMAIN ev.inds : ~ev.inds[j].had}}
VOf(ev, i) == ev.inds[CHOOSE k \in DOMAIN ev.inds : ev.inds[k].id = i].v
CallsWithV(ev, v) == Cardinality({k \in DOMAIN ev.ffcalls : ev.ffcalls[k].v = v})
FreshWithV(ev, v) == Cardinality({i \in FreshIds(ev) : VOf(ev, i) = v})
EvalcallClauses(x, ev) ==
    IF ev.exc # "" THEN <<<<"C13", "C13:evaluator-raises">>>>
    ELSE
    (IF \E k \in DOMAIN ev.after : ~ev.after[k].has THEN <<<<"C13", "C13:not-evaluated">>>> ELSE <<>>)
    \* a problem object that has evaluated nothing yet has no fitness for anybody (whatever address it lives at)
    \o (IF ev.fresh_problem /\ \E k \in DOMAIN ev.inds : ev.inds[k].had
        THEN <<<<"C13", "C13:fitness-of-another-problem">>>> ELSE <<>>)
    \o (IF \E k \in DOMAIN ev.after : ev.after[k].has /\
              ev.after[k].comps # (IF ev.inds[k].had THEN ev.inds[k].hadcomps ELSE TableFit(ev.inds[k].v))
        THEN <<<<"C13", "C13:fitness#ff(program)">>>> ELSE <<>>)
    \o (IF \E k \in DOMAIN ev.after : ev.after[k].has /\
              (Len(ev.after[k].comps) # Len(ev.mini) \/ ev.after[k].agg # Agg(ev.after[k].comps, ev.mini))
        THEN <<<<"C13", "C13:aggregate">>>> ELSE <<>>)
    \o (IF \E k \in DOMAIN ev.ffcalls : CallsWithV(ev, ev.ffcalls[k].v) > FreshWithV(ev, ev.ffcalls[k].v)
        THEN <<<<"C13", "C13:evaluated-twice">>>> ELSE <<>>)
    \o (IF \E i \in FreshIds(ev) : CallsWithV(ev, VOf(ev, i)) < FreshWithV(ev, VOf(ev, i))
        THEN <<<<"C13", "C13:fitness-without-invocation">>>> ELSE <<>>)
    \o (IF ev.count_after - ev.count_before # Len(ev.ffcalls)
        THEN <<<<"C13", "C13:counter#invocations">>>> ELSE <<>>)

EvalpairClauses(x, ev) == IF ev.seq # ev.par THEN <<<<"C13", "C13:parallel#sequential">>>> ELSE <<>>

LassoClauses(x, ev) == <<<<"C14", "C14:no-progress-lasso">>>>

AllClauses(x, ev) ==
    CASE ev.e = "ff"    -> FFClauses(x, ev)
      [] ev.e = "reg"   -> RegClauses(x, ev)
      [] ev.e = "check" -> CheckClauses(x, ev)
      [] ev.e = "ret"   -> RetClauses(x, ev)
      [] ev.e = "lasso" -> LassoClauses(x, ev)
      \* a search given a well-formed budget ends by returning: an exception is not a termination
      [] ev.e = "runfail" -> <<<<"C14", "C14:search-raises">>>>
      [] ev.e = "present" -> <<>>
      [] ev.e = "born" -> <<>>
      [] ev.e = "endpresent" ->
           \* after tracker.evaluate(batch) returned, the reported best is at least as good as EVERY individual
           \* evaluated so far (whether the tracker or a step-like direct evaluator call evaluated it)
           IF \E k \in DOMAIN x.ffret : Agg(x.ffret[k], Mini) > ev.bestagg THEN <<<<"C12", "C12:tracker-best">>>> ELSE <<>>
      [] ev.e = "evalcall" -> EvalcallClauses(x, ev)
      [] ev.e = "evalpair" -> EvalpairClauses(x, ev)
      [] OTHER -> <<<<Prop, "unknown-event">>>>

\* only the clauses of the property under check are reported
Mine(cs) == SelectSeq(cs, LAMBDA c : c[1] = Prop)             \* clauses are <<property, name>>
FirstMine(cs) == IF Mine(cs) = <<>> THEN "ok" ELSE Mine(cs)[1][2]

AttrsOf(x, ev) ==
    CASE ev.e = "ret" /\ Prop = "C12" /\ x.done /\ ev.ind # 0 /\ HasFit(x.t, ev.ind)
              /\ Agg(FitOf(x.t, ev.ind), Mini) = x.t.maxagg -> <<Cfg.alg, Cfg.step>>     \* returned-worse-than-evaluated
      [] ev.e = "lasso" -> <<Cfg.alg, IF ev.ffs = 0 THEN "fresh-per-generation=0" ELSE "fresh-per-generation>0">>
      [] ev.e = "evalcall" -> <<"evaluator", IF Cfg.multi THEN "multi" ELSE "single", ev.evaluator>>
      [] ev.e = "runfail" -> <<Cfg.alg, Cfg.budget, ev.exc>>
      [] OTHER -> <<Cfg.alg, IF Cfg.multi THEN "multi" ELSE "single", Cfg.evaluator>>

TInit   == tid \in 1..NTraces /\ InitWith(S0)
TNext   == Step(FirstMine(AllClauses(st, Ev)), AttrsOf(st, Ev), Eff(st, Ev))
TSpec   == TInit /\ [][TNext]_tvars
Collect == CollectWith("ok")
=============================================================================
