------------------------------ MODULE MC_Search ------------------------------
(* Model-checking instance of GEAlgorithms: every fitness history over small value sets,
   the loop shapes of the four algorithms, single and multi objective, both directions. *)
EXTENDS GEAlgorithms

V1 == {<<1>>, <<2>>, <<3>>}
V2 == {<<1, 1>>, <<1, 2>>, <<2, 1>>, <<2, 2>>}
C(vals, mini, multi, fb, b, mf, bn, t, ht) ==
    [vals |-> vals, mini |-> mini, multi |-> multi, fb |-> fb, b |-> b, minfresh |-> mf,
     n |-> bn, target |-> t, hastarget |-> ht]

\* RS / 1+1 (1,1), HC (1,k), GP (P,P) with every number of fresh individuals >= MinFresh
Shapes == {<<1, 1, 1>>, <<1, 3, 3>>, <<3, 3, 1>>, <<3, 3, 3>>, <<2, 2, 1>>}

SafetyConfigs ==
    {C(V1, <<m>>, FALSE, sh[1], sh[2], sh[3], bn, 0, FALSE) : m \in BOOLEAN, sh \in Shapes, bn \in {1, 4, 5}}
    \cup {C(V2, <<m1, m2>>, TRUE, sh[1], sh[2], sh[3], 4, 0, FALSE) : m1 \in BOOLEAN, m2 \in BOOLEAN, sh \in {<<1, 1, 1>>, <<2, 2, 1>>}}
    \cup {C(V1, <<m>>, FALSE, sh[1], sh[2], sh[3], bn, 2, TRUE) : m \in BOOLEAN, sh \in {<<1, 1, 1>>, <<2, 2, 1>>}, bn \in {0, 5}}

QuickConfigs == {c \in SafetyConfigs : c.n <= 4 /\ (c.b <= 2 \/ c.minfresh = c.b)}
\* every later batch holds at least one fresh individual: the search must terminate
LiveConfigs == {c \in SafetyConfigs : c.n > 0}
QuickLiveConfigs == {c \in QuickConfigs : c.n > 0}
\* step compositions that may emit no fresh individual at all (elitism / selection only)
NoFreshConfigs == {C(V1, <<FALSE>>, FALSE, 2, 2, 0, 4, 0, FALSE)}
==============================================================================
