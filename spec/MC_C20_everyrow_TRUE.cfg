SPECIFICATION Spec
CONSTANT FlushPolicy = "every-row"
CONSTANT OnlyBest = TRUE
INVARIANT AfterRegister
INVARIANT DiskIsPrefix
INVARIANT CrashBetweenRegistrationsLosesNothing
INVARIANT RowCount
CHECK_DEADLOCK FALSE
