------------------------------- MODULE GEMapFn -------------------------------
(***************************************************************************)
(* The grammatical-evolution mapping as a FUNCTION of the genotype         *)
(* (ge.py: ListWrapper + random_node with a MaxDepthDecider bound to the   *)
(* gene-backed source).  Every decision of create_node reads one gene:     *)
(*     index := (index + 1) mod |dna| ;  value := dna[index] mod width + lo *)
(*   abstract symbol / union : the alternatives that still fit the depth   *)
(*                             (in grammar order), chosen by a draw in     *)
(*                             0..n-1                                      *)
(*   IntRange(lo,hi)         : a draw in lo..hi                            *)
(*   IntList / VarRange      : a draw in 0..n-1 indexing the options       *)
(*   ListSizeBetween(lo,hi)  : a draw in lo..hi, then the elements         *)
(*   plain list              : a draw in 0..10, then the elements          *)
(*   bool                    : a draw in 0..1 indexing <<TRUE, FALSE>>     *)
(* Genes are 0-based in the implementation; dna here is a 1-based sequence *)
(* so position p reads dna[p + 1].                                         *)
(* The mapping is defined for the finite-choice forms above; Defined(G)    *)
(* says whether a grammar stays inside them.                               *)
(***************************************************************************)
EXTENDS GESynthesisRules

\* one draw: returns [v |-> value in lo..hi, i |-> new index]
Draw(dna, i, lo, hi) == LET j == (i + 1) % Len(dna) IN [v |-> (dna[j + 1] % (hi - lo + 1)) + lo, i |-> j]

R(t, i) == [t |-> t, i |-> i]

RECURSIVE MapForm(_, _, _, _, _, _, _, _)
RECURSIVE MapSeq(_, _, _, _, _, _, _, _, _)

\* map a sequence of forms (fields / elements) left to right, threading the gene index
MapSeq(G, A, dist, dna, fs, cs, i, maxd, acc) ==
    IF fs = <<>> THEN [ts |-> acc, i |-> i]
    ELSE LET r == MapForm(G, A, dist, dna, Head(fs), Head(cs), i, maxd)
         IN MapSeq(G, A, dist, dna, Tail(fs), Tail(cs), r.i, maxd, Append(acc, r.t))

\* dist: the implementation's table symbol -> reported distance; forms are measured as the code does
DistOfForm(dist, f) == FormMinV(f, dist, {"list-assumed-nonempty"})
Feasible(dist, alts, c, maxd) == SelectSeq(alts, LAMBDA a : DistOfForm(dist, a) <= maxd - c)     \* in the order offered

MapForm(G, A, dist, dna, f, c, i, maxd) ==
    CASE f.k = "sym" /\ IsAbs(G, f.s) ->
             LET alts == Feasible(dist, [j \in DOMAIN A[f.s] |-> SymF(A[f.s][j])], c, maxd)
                 d    == Draw(dna, i, 0, Len(alts) - 1)
             IN IF alts = <<>> THEN R(IntV(0), i) ELSE MapForm(G, A, dist, dna, alts[d.v + 1], c, d.i, maxd)
      [] f.k = "sym" ->
             LET fs == [j \in DOMAIN Fields(G, f.s) |-> Fields(G, f.s)[j].f]
                 r  == MapSeq(G, A, dist, dna, fs, [j \in DOMAIN fs |-> c + 1], i, maxd, <<>>)
             IN R(Node(f.s, r.ts), r.i)
      [] f.k = "union" ->
             LET alts == Feasible(dist, f.es, c, maxd)
                 d    == Draw(dna, i, 0, Len(alts) - 1)
             IN IF alts = <<>> THEN R(IntV(0), i) ELSE MapForm(G, A, dist, dna, alts[d.v + 1], c, d.i, maxd)
      [] f.k = "tuple" ->
             LET r == MapSeq(G, A, dist, dna, f.es, [j \in DOMAIN f.es |-> c], i, maxd, <<>>) IN R(TupleT(r.ts), r.i)
      [] f.k = "list" ->
             LET d == Draw(dna, i, 0, 10)
                 r == MapSeq(G, A, dist, dna, [j \in 1..d.v |-> f.es[1]], [j \in 1..d.v |-> c], d.i, maxd, <<>>)
             IN R(ListT(r.ts), r.i)
      [] f.k = "base" /\ f.s = "bool" -> LET d == Draw(dna, i, 0, 1) IN R(BoolV(IF d.v = 0 THEN 1 ELSE 0), d.i)
      [] f.k = "ann" /\ f.mh.k = "IntRange" -> LET d == Draw(dna, i, f.mh.lo, f.mh.hi) IN R(IntV(d.v), d.i)
      [] f.k = "ann" /\ f.mh.k = "IntList" ->
             LET d == Draw(dna, i, 0, Len(f.mh.vals) - 1) IN R(IntV(f.mh.vals[d.v + 1]), d.i)
      [] f.k = "ann" /\ f.mh.k = "VarRange" ->
             LET d == Draw(dna, i, 0, Len(f.mh.opts) - 1) IN R(StrV(f.mh.opts[d.v + 1]), d.i)
      [] f.k = "ann" /\ f.mh.k = "ListSize" ->
             LET d  == Draw(dna, i, f.mh.lo, f.mh.hi)
                 ef == f.es[1].es[1]
                 r  == MapSeq(G, A, dist, dna, [j \in 1..d.v |-> ef], [j \in 1..d.v |-> c], d.i, maxd, <<>>)
             IN R(ListT(r.ts), r.i)
      [] OTHER -> R(IntV(0), i)

RECURSIVE FormDefined(_)
FormDefined(f) == CASE f.k = "sym" -> TRUE
                    [] f.k = "base" -> f.s = "bool"
                    [] f.k \in {"union", "tuple", "list"} -> \A j \in DOMAIN f.es : FormDefined(f.es[j])
                    [] f.k = "ann" -> f.mh.k \in {"IntRange", "IntList", "VarRange"} \/ (f.mh.k = "ListSize" /\ FormDefined(f.es[1].es[1]))
                    [] OTHER -> FALSE
=============================================================================
